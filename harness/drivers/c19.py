"""C19 - enthalpy methods recover the enthalpy built into consistent synthetic data.

spec/Enthalpy.tla: scenario spaces (TLC enumerates), the isosteric clause (returned enthalpy = dH of the generating
van 't Hoff law, slope = -dH/R), the Whittaker closed form lambda + h_vap + RT with the classification of every
loading w.r.t. the range where a vaporisation enthalpy exists (which loadings must / may be omitted), and the
initial-enthalpy-point rule.  spec/EnthalpyMC is model-checked (orders are permutations, the omission classes
partition the pressure line).  The driver builds the generating isotherms from parameters (K(T) = K0 exp(dH/RT)
is input data computed here with the CODATA gas constant), runs the library and lets TLC (spec/EnthalpyOracle)
judge the recorded results.  Logarithms / real powers needed by the closed form are input data.
"""
import math
import os

for _v in ("OMP_NUM_THREADS", "OPENBLAS_NUM_THREADS", "MKL_NUM_THREADS"):
    os.environ.setdefault(_v, "1")

from ..common import Run, exc_class, MachineryError, quiet_pygaps
from .. import tlc
from ..encode import dec_enc, dec_dec

PID = "C19"
R = 8.314462618        # J/(mol K), CODATA 2018
TREF = 298.0
NOVAL = [0, 9999]
# pressure of 1 bar / loading of 1 mmol/g expressed in the configuration's units (any common positive factor gives
# a consistent set of isotherms; the enthalpy does not depend on it)
PFAC_PA = {"Pa": 1.0, "kPa": 1e3, "bar": 1e5, "torr": 101325.0 / 760.0}      # harness side, only to BUILD descriptions in other units
PFAC = {"bar": 1.0, "kPa": 100.0, "torr": 750.0617, "Pa": 1e5}
LFAC = {"mmol": 1.0, "cm3(STP)": 22.414, "mg": 28.0134}


def pick(i, seed, stride):
    """deterministic pseudo-random 1-in-stride slice (multiplicative hash: no aliasing with the nesting of the scenario product)"""
    return stride <= 1 or ((i * 2654435761 + seed * 1640531527) % 4294967296) * stride < 4294967296


def enc(x):
    x = float(x)
    if not math.isfinite(x):
        return NOVAL
    return dec_enc(x)


def k_of_t(k_ref, dh_kj, temp):
    return k_ref * math.exp(dh_kj * 1000.0 / R * (1.0 / temp - 1.0 / TREF))


def gen_params(gen, n_m, k):
    if gen == "Langmuir":
        return {"n_m": n_m, "K": k}
    if gen == "Toth":
        return {"n_m": n_m, "K": k, "t": 0.7}
    return {"n_m1": 0.6 * n_m, "K1": k, "n_m2": 0.4 * n_m, "K2": 0.05 * k}


def forward(gen, par, p):
    import numpy
    p = numpy.asarray(p, dtype=float)
    if gen == "Langmuir":
        return par["n_m"] * par["K"] * p / (1 + par["K"] * p)
    if gen == "Toth":
        return par["n_m"] * par["K"] * p / (1 + (par["K"] * p) ** par["t"]) ** (1 / par["t"])
    return par["n_m1"] * par["K1"] * p / (1 + par["K1"] * p) + par["n_m2"] * par["K2"] * p / (1 + par["K2"] * p)


def unit_kwargs(u, temp):
    kw = {k: u[k] for k in ("pressure_unit", "loading_basis", "loading_unit", "material_basis", "material_unit", "temperature_unit")}
    kw["pressure_mode"] = u["pressure_mode"]
    if kw["pressure_unit"] == "none":
        kw["pressure_unit"] = None
    kw["temperature"] = temp if u["temperature_unit"] == "K" else temp - 273.15
    return kw


def build_isotherms(s):
    """Generating isotherms of one isosteric scenario, expressed in the scenario's units."""
    import numpy
    import pygaps
    import pygaps.modelling as pgm
    u = s["units"]
    lf = LFAC[u["loading_unit"]]
    n_m = 5.0 * lf
    isos = []
    aname = u["adsorbate"]
    ads = pygaps.Adsorbate.find(aname)
    for temp in s["temps"]:
        if u["pressure_mode"] == "absolute":
            pf = PFAC[u["pressure_unit"]]
        else:
            # relative pressure p/p0(T) (in % for relative%): 1 bar expressed in units of THIS isotherm's saturation pressure,
            # which the adsorbate API supplies (the library divides / multiplies by the same number)
            pf = 1e5 / float(ads.saturation_pressure(float(temp))) * (100.0 if u["pressure_mode"] == "relative%" else 1.0)
        k = k_of_t(10.0 ** s["pmag"], s["dH"], temp) / pf          # 10^pmag / bar at 298 K -> 1/unit
        par = gen_params(s["gen"], n_m, k)
        kw = unit_kwargs(u, float(temp))
        if s["kind"] == "model":
            # declared ranges strictly inside (0, capacity): the default loading grid of the method starts at the range minimum
            model = pgm.get_isotherm_model(s["gen"], parameters=par, pressure_range=(1e-3 / k, 1e3 / k), loading_range=(0.02 * n_m, 0.9 * n_m))
            isos.append(pygaps.ModelIsotherm(model=model, material="enth-sample", adsorbate=aname, **kw))
        else:
            # 300 points (75 per decade of K*p); the grid is shifted differently for every temperature so that
            # interpolation errors do not cancel between the isotherms
            shift = 1.0 + 0.37 * ((temp * 0.618) % 1.0)
            x = numpy.geomspace(1e-2, 1e2, 300) * shift
            p = x / k
            isos.append(pygaps.PointIsotherm(pressure=list(p), loading=list(forward(s["gen"], par, p)), material="enth-sample", adsorbate=aname, **kw))
    return isos, n_m


def main(tier, seed):
    import numpy
    quiet_pygaps()
    import pygaps
    import pygaps.modelling as pgm
    from pygaps.characterisation.isosteric_enth import isosteric_enthalpy
    from pygaps.characterisation.enth_sorp_whittaker import enthalpy_sorption_whittaker
    from pygaps.characterisation.initial_enth import initial_enthalpy_point
    run = Run(PID, tier, seed, "exploration")
    thorough = tier == "thorough"

    res = tlc.must_pass("EnthalpyMC", timeout=600)
    run.set(states=res["distinct"], transitions=res["states_generated"], tlc_depth=res["depth"], tlc_invariants=["PermOk", "Partition", "Tols"])
    space = tlc.oracle("EnthalpyOracle", [{"k": "scen"}], timeout=600)[0]
    iso_scen = sorted(space["iso"], key=lambda s: (s["dH"], len(s["temps"]), s["temps"], s["order"], s["gen"], s["kind"], s["units"]["name"], s["pmag"]))
    if len(iso_scen) != 5 * 26 * 3 * 3 * 2 * 5:
        raise MachineryError(f"spec enumerates {len(iso_scen)} isosteric scenarios, expected 11700")

    queries, meta = [], []

    # ---- isosteric
    seen = set()
    for i, s in enumerate(iso_scen):
        key = (s["dH"], tuple(s["temps"]), s["gen"], s["kind"], s["units"]["name"], s["pmag"])
        if key in seen:            # "rot" of a pair is its "desc"
            continue
        seen.add(key)
        stride = 1 if thorough else (8 if s["kind"] == "model" else 24)
        if not pick(i, seed, stride):
            continue
        sig = {"site": "isosteric_enthalpy", "units": s["units"]["name"], "order": s["order"], "pressure_magnitude": "below 1e-5 bar" if s["pmag"] >= 6 else "ordinary"}
        try:
            isos, n_m = build_isotherms(s)
            default_grid = pick(i + 7, seed, 9)
            pts = None if default_grid else [f * n_m for f in (0.04, 0.2, 0.5, 0.75)]
            out = isosteric_enthalpy(isos, loading_points=pts)
        except MachineryError:
            raise
        except Exception as e:
            run.count(("iso",) + key)
            run.violation({**sig, "clause": "returns", "observed": "exception:" + exc_class(e)}, {"scenario": s, "message": str(e)[:300]})
            continue
        h = [float(v) for v in out["isosteric_enthalpy"]]
        sl = [float(v) for v in out["slopes"]]
        if not all(math.isfinite(v) for v in h + sl):
            run.count(("iso",) + key)
            run.violation({**sig, "clause": "enthalpy", "observed": "non-finite enthalpy"}, {"scenario": s, "h": h})
            continue
        queries.append({"k": "iso", "dH": s["dH"], "kind": s["kind"], "nreq": 50 if pts is None else len(pts), "h": [enc(v) for v in h], "slopes": [enc(v) for v in sl]})
        meta.append(("iso", key, sig, {"scenario": s, "loading_points": pts, "enthalpy": h[:6], "all": h}))

    # ---- isosteric, two-branch point isotherms (spec BranchScenarios)
    br_scen = sorted(space["branch"], key=lambda s: (s["pair"], len(s["temps"]), s["temps"], s["gen"], s["branch"]))
    for bi, s in enumerate(br_scen):
        if not pick(bi, seed, 1 if thorough else 6):
            continue
        key = ("branch", tuple(s["pair"]), tuple(s["temps"]), s["gen"], s["branch"])
        sig = {"site": "isosteric_enthalpy", "units": "bar-mmol-g-K", "isotherms": "two branches", "branch": s["branch"]}
        try:
            isos = []
            for temp in s["temps"]:
                shift = 1.0 + 0.37 * ((temp * 0.618) % 1.0)
                x = numpy.geomspace(1e-2, 1e2, 300) * shift
                ka, kd = k_of_t(1.0, s["pair"][0], temp), k_of_t(1.0, s["pair"][1], temp)
                pa, pd = x / ka, (x / kd)[::-1]                      # desorption stored from the highest pressure downwards
                na, nd = forward(s["gen"], gen_params(s["gen"], 5.0, ka), pa), forward(s["gen"], gen_params(s["gen"], 5.0, kd), pd)
                isos.append(pygaps.PointIsotherm(pressure=list(pa) + list(pd), loading=list(na) + list(nd), branch=[False] * len(pa) + [True] * len(pd),
                                                 material="enth-sample", adsorbate="N2", temperature=float(temp), pressure_mode="absolute", pressure_unit="bar",
                                                 loading_basis="molar", loading_unit="mmol", material_basis="mass", material_unit="g"))
            pts = [f * 5.0 for f in (0.04, 0.2, 0.5, 0.75)]
            out = isosteric_enthalpy(isos, loading_points=pts, branch=s["branch"])
        except Exception as e:
            run.count(key)
            run.violation({**sig, "clause": "returns", "observed": "exception:" + exc_class(e)}, {"scenario": s, "message": str(e)[:300]})
            continue
        h = [float(v) for v in out["isosteric_enthalpy"]]
        sl = [float(v) for v in out["slopes"]]
        queries.append({"k": "iso", "dH": s["dH"], "kind": "point", "nreq": len(pts), "h": [enc(v) for v in h], "slopes": [enc(v) for v in sl]})
        meta.append(("iso", key, sig, {"scenario": {**s, "kind": "point"}, "loading_points": pts, "enthalpy": h[:6], "all": h}))

    # ---- Whittaker
    wh_plan = [("N2", (77.35, 90.0, 110.0)), ("CO2", (230.0, 273.15, 298.0)), ("CH4", (112.0, 150.0, 180.0))]
    n_m = 5.0
    for ai, (aname, temps) in enumerate(wh_plan):
        ads = pygaps.Adsorbate.find(aname)
        p_t, p_c = float(ads.p_triple()), float(ads.p_critical())
        hv_t = float(hvap_direct(ads, p_t))
        for ti, temp in enumerate(temps):
            p_sat = float(ads.saturation_pressure(temp))
            p_hi = min(p_sat, p_c)
            targets = [0.2 * p_t, p_t * 0.999, p_t * 1.001, (p_t ** 2 * p_hi) ** (1 / 3), math.sqrt(p_t * p_hi), p_hi * 0.999, p_hi * 1.001]
            if p_sat < p_c:
                targets += [math.sqrt(p_sat * p_c), p_c * 0.999]
            targets += [p_c * 1.001, 3.0 * p_c]
            for mi, (model, t) in enumerate((("Langmuir", 1.0), ("Toth", 0.6), ("Toth", 0.85))):
              for ui, punit in enumerate(space["whit_model_units"]):
                for ki, kshift in enumerate((1.0, 4.0)):
                    if not thorough and (ai + ti + mi + ki + ui + seed) % 2 != 0:
                        continue
                    if punit != "Pa" and ki == 1:
                        continue
                    upa = PFAC_PA[punit]
                    K = kshift / math.sqrt(0.2 * p_t * 3.0 * p_c)
                    par = {"n_m": n_m, "K": K} if model == "Langmuir" else {"n_m": n_m, "K": K, "t": t}
                    loads = [float(v) for v in forward(model, par, targets)]
                    if model == "Langmuir":
                        loads = [0.0] + loads
                    loads = loads + [1.2 * n_m, 3.0 * n_m]          # above the capacity: no positive model pressure
                    sig = {"site": "enthalpy_sorption_whittaker", "input": "ModelIsotherm", "model": model, "model_pressure_unit": punit}
                    key = ("whit", aname, temp, model, t, kshift, punit)
                    # the description in its OWN pressure unit: K per unit = K per Pa * (Pa per unit)
                    par_u = dict(par, K=K * upa)
                    try:
                        m = pgm.get_isotherm_model(model, parameters=par_u, pressure_range=(0.0, 1e12 / upa), loading_range=(0.0, n_m))
                        iso = pygaps.ModelIsotherm(model=m, material="enth-sample", adsorbate=aname, temperature=temp, pressure_mode="absolute", pressure_unit=punit,
                                                   loading_basis="molar", loading_unit="mmol", material_basis="mass", material_unit="g")
                    except Exception as e:
                        raise MachineryError(f"could not build the model isotherm in {punit}: {e}")
                    try:
                        with numpy.errstate(all="ignore"):
                            out = enthalpy_sorption_whittaker(iso, loading=list(loads))
                    except Exception as e:
                        run.count(key)
                        if punit != "Pa" and exc_class(e) in ("ParameterError", "CalculationError"):
                            run.add("whittaker_model_isotherm_not_in_Pa_refused")     # a refusal is fine; a returned value must be right
                            continue
                        run.violation({**sig, "clause": "returns", "observed": "exception:" + exc_class(e)}, {"params": par_u, "T": temp, "message": str(e)[:300]})
                        continue
                    queries.append(whit_query(ads, model, par, t, temp, p_t, p_c, p_sat, hv_t, loads, out, kunit=(K * upa, punit)))
                    meta.append(("whit", key, sig, {"adsorbate": aname, "T": temp, "params": par, "loading": loads, "returned_loading": [float(v) for v in out["loading"]],
                                                     "enthalpy": [float(v) for v in out["enthalpy_sorption"]], "p_triple": p_t, "p_sat": p_sat, "p_critical": p_c}))
            # point isotherm entry: the method fits the description itself and reports it; the isotherm is handed over in every
            # stored representation of spec WhitStorage (pressure unit / relative mode / degC)
            for si, st in enumerate(space["whit_storage"]):
                if not (thorough or (ai + ti + si + seed) % 3 == 0):
                    continue
                for model in ("Langmuir", "Toth"):
                    K = 1.0 / math.sqrt(0.2 * p_t * 3.0 * p_c)
                    par = {"n_m": n_m, "K": K} if model == "Langmuir" else {"n_m": n_m, "K": K, "t": 0.7}
                    pgrid = numpy.geomspace(0.02 / K, min(60.0 / K, 0.98 * p_sat), 60)
                    sig = {"site": "enthalpy_sorption_whittaker", "input": "PointIsotherm", "model": model, "stored_temperature_unit": st["temperature_unit"]}
                    key = ("whit-point", aname, temp, model, st["name"])
                    tg = [0.3 * p_t, (p_t ** 2 * p_hi) ** (1 / 3), math.sqrt(p_t * p_hi), 0.8 * p_hi]
                    loads = [float(v) for v in forward(model, par, tg)]
                    if st["pressure_mode"] == "absolute":
                        pstored = pgrid * PFAC[st["pressure_unit"]] / 1e5
                    else:       # p/p0 with the adsorbate's own saturation pressure (what the library divides by), in % for relative%
                        pstored = pgrid / p_sat * (100.0 if st["pressure_mode"] == "relative%" else 1.0)
                    try:
                        iso = pygaps.PointIsotherm(pressure=list(pstored), loading=list(forward(model, par, pgrid)), material="enth-sample", adsorbate=aname,
                                                   temperature=temp if st["temperature_unit"] == "K" else temp - 273.15, temperature_unit=st["temperature_unit"],
                                                   pressure_mode=st["pressure_mode"], pressure_unit=None if st["pressure_unit"] == "none" else st["pressure_unit"],
                                                   loading_basis="molar", loading_unit="mmol", material_basis="mass", material_unit="g")
                    except Exception as e:
                        raise MachineryError(f"could not build the point isotherm ({st['name']}): {e}")
                    try:
                        with numpy.errstate(all="ignore"):
                            out = enthalpy_sorption_whittaker(iso, model=model, loading=list(loads))
                        fit = {k: float(v) for k, v in out["model_params"].items()}
                    except Exception as e:
                        c = exc_class(e)
                        run.count(key)
                        if c == "CalculationError":
                            run.add("whittaker_point_fits_not_converged")      # the property speaks about results, not about fit convergence
                            continue
                        run.violation({**sig, "clause": "returns", "observed": "exception:" + c}, {"params": par, "T": temp, "message": str(e)[:300]})
                        continue
                    tfit = fit.get("t", 1.0)
                    # loadings were chosen well inside their classes for the generating parameters; the closed form is evaluated for the description the method reports
                    queries.append(whit_query(ads, model, fit, tfit, temp, p_t, p_c, p_sat, hv_t, loads, out, nm=fit["n_m"]))
                    meta.append(("whit", key, sig, {"adsorbate": aname, "T": temp, "stored": st["name"], "generating_params": par, "reported_params": fit, "loading": loads,
                                                     "returned_loading": [float(v) for v in out["loading"]], "enthalpy": [float(v) for v in out["enthalpy_sorption"]]}))

    # ---- initial enthalpy point
    import pandas
    for pi, s in enumerate(space["point"]):
        rows = s["rows"]
        na = sum(1 for r in rows if r["b"] == 0)
        pres, load = [], []
        for i, r in enumerate(rows):
            j = i + 1 if r["b"] == 0 else 2 * na - i        # pressure rises on adsorption rows, falls on desorption rows
            pres.append(0.1 * j + (0.03 if r["b"] else 0.0))
            load.append(1.0 * j + (0.4 if r["b"] else 0.0))
        key = ("point", pi)
        sig = {"site": "initial_enthalpy_point", "branch": s["branch"]}
        try:
            df = pandas.DataFrame({"pressure": pres, "loading": load, "enthalpy": [float(r["h"]) for r in rows]})
            iso = pygaps.PointIsotherm(isotherm_data=df, pressure_key="pressure", loading_key="loading", other_keys=["enthalpy"], branch=[bool(r["b"]) for r in rows],
                                       material="enth-sample", adsorbate="N2", temperature=77.0, pressure_mode="absolute", pressure_unit="bar",
                                       loading_basis="molar", loading_unit="mmol", material_basis="mass", material_unit="g")
        except Exception as e:
            raise MachineryError(f"could not build the calorimetric isotherm: {e}")
        try:
            val = initial_enthalpy_point(iso, "enthalpy", branch=s["branch"])["initial_enthalpy"]
            observed, value = "value", enc(val)
        except Exception as e:
            observed, value = exc_class(e), NOVAL
        queries.append({"k": "point", "rows": rows, "branch": s["branch"], "observed": observed, "value": value})
        meta.append(("point", key, sig, {"rows": rows, "branch": s["branch"], "observed": observed, "value": None if value == NOVAL else dec_dec(value)}))

    # ---- TLC judges
    answers = tlc.oracle("EnthalpyOracle", queries, timeout=1500, chunk=1500)
    counts = {"iso": 0, "whit": 0, "point": 0}
    worst = {"model": 0.0, "point": 0.0}
    wpoint = 0
    wreported = {}
    wclasses = {}
    for (kind, key, sig, smp), ans in zip(meta, answers):
        counts[kind] += 1
        if kind == "iso":
            run.count(("iso",) + key, n=max(1, len(smp["enthalpy"])))
            kd = smp["scenario"]["kind"]
            worst[kd] = max(worst[kd], max(abs(v / smp["scenario"]["dH"] - 1) for v in smp["all"]))
            if not ans["len"]:
                run.violation({**sig, "clause": "enthalpy", "observed": "number of results differs from the number of loading points"}, smp)
            elif ans["enthalpy"]:
                h = smp["enthalpy"][0]
                ratio = h / smp["scenario"]["dH"] if smp["scenario"]["dH"] else 0
                run.violation({**sig, "clause": "enthalpy", "observed": "returned enthalpy is not the dH of the generating van 't Hoff law"},
                              {**{k: v for k, v in smp.items() if k != "all"}, "first_over_dH": ratio})
            elif ans["slope"]:
                run.violation({**sig, "clause": "slope", "observed": "reported slope is not -dH/R"}, smp)
        elif kind == "whit":
            run.count(key, n=len(smp["loading"]))
            wpoint += key[0] == "whit-point"
            for c, nload in zip(ans["cls"], smp["loading"]):
                wclasses[c] = wclasses.get(c, 0) + 1
                if nload in smp["returned_loading"]:
                    wreported[c] = wreported.get(c, 0) + 1
            if not ans["input_ok"]:
                raise MachineryError("Whittaker input data inconsistent with the spec's Langmuir root")
            if not ans["subseq"]:
                run.violation({**sig, "clause": "omission", "observed": "returned loadings are not a subsequence of the requested ones"}, smp)
            for k, what in ans["bad"]:
                run.violation({**sig, "clause": "omission" if "omitted" in what or "reported although" in what else "closed_form", "pressure_class": ans["cls"][k - 1], "observed": what},
                              {**smp, "index": k, "classes": ans["cls"]})
        else:
            run.count(key, nontrivial=ans["judged"])
            if ans["judged"] and not ans["ok"]:
                run.violation({**sig, "clause": "first_of_branch", "observed": "not the first enthalpy of the chosen branch" if smp["observed"] == "value" else "exception:" + smp["observed"]}, smp)
        if len(run.cov["samples"]) < 5 and {"iso": counts["iso"] % 211 == 1, "whit": counts["whit"] % 17 == 1, "point": counts["point"] % 40 == 1}[kind]:
            run.sample({"kind": kind, **{k: v for k, v in smp.items() if k != "all"}})
    run.add("traces_validated_against_impl", len(queries))
    run.set(worst_relative_deviation_model=worst["model"], worst_relative_deviation_point=worst["point"], whittaker_point_isotherm_runs=wpoint,
            isosteric_scenarios_run=counts["iso"], isosteric_scenarios_in_spec=len(iso_scen), whittaker_runs=counts["whit"], whittaker_loading_classes=wclasses, whittaker_reported_and_judged_by_class=wreported,
            initial_point_cases=counts["point"], exhaustive=bool(thorough),
            rule="isosteric: dH {5,10,20,40,60} kJ/mol x all 26 subsets (2-5) of {200,250,298,350,400} K x order (asc, desc, rotated) x generator (Langmuir, Toth, DS-Langmuir) x "
                 "(model isotherm | 300-point isotherm) x pressure magnitude 10^0/-6/-10/+3 bar (by rotation) x 5 unit configurations (3 absolute incl. degC; relative and relative% pressure with n-butane), enumerated by spec/Enthalpy.tla ("
                 + ("thorough: all" if thorough else "quick: every 8th model / 24th point scenario")
                 + ", offset by the seed); 4 loadings each, every 9th run uses the default 50-point loading grid. Two-branch point isotherms (adsorption / desorption built with different dH: 3 pairs x 26 subsets x 3 generators x branch ads|des, thorough all, quick 1/6). Whittaker: N2/CO2/CH4 x 3 subcritical temperatures x "
                   "(Langmuir, Toth t=0.6, 0.85) x model isotherm expressed in Pa (2 affinities) / kPa / bar / torr (refusal accepted, a returned value must be the closed form) with loadings placed below / at / inside / beyond the range where h_vap exists and above the capacity n_m, plus fitted point isotherms stored in 5 representations (Pa/bar/kPa, relative, relative%, K/degC). "
                   "Initial point: 12 branch layouts x 6 enthalpy patterns (incl. negative, zero and > 400 first values) x 2 branches from the spec. distinct = distinct scenario; initial-point cases whose branch is empty are trivial")
    run.assume("K(T) = K0 exp(dH/RT) with R = 8.314462618 J/(mol K) is computed by the harness (input); ln and real powers of the Whittaker closed form are harness input, "
               "the formula itself (lambda + h_vap + RT, pressure of a loading, omission classes) is evaluated by TLC")
    run.assume("h_vap(p) is an independent reference: CoolProp (HEOS) queried directly with a private state object, not through Adsorbate; "
               "p_triple, p_sat, p_critical are observations of the adsorbate API")
    run.assume("relative pressure p/p0(T) is built with the adsorbate API's own saturation pressure; temperature-dependent loading bases (volume_liquid) are not 'common units' and are not exercised")
    run.assume("loadings below the triple-point pressure may be omitted or reported with h_vap at the triple point (documented); loadings between p_sat and p_c may be omitted; "
               "fidelity of the lambda expression to Whittaker et al. is not decided (DESIGN section 8)")
    return run.finish()


def hvap_direct(ads, press):
    """Vaporisation enthalpy (kJ/mol) on the saturation line at pressure `press`, queried from CoolProp directly with a
    private state object - an independent reference: nothing cached inside Adsorbate can reach it."""
    import CoolProp as CP
    st = CP.AbstractState("HEOS", ads.properties["backend_name"])
    st.update(CP.PQ_INPUTS, press, 0.0)
    h_liq = st.hmolar()
    st.update(CP.PQ_INPUTS, press, 1.0)
    return (st.hmolar() - h_liq) / 1000.0


def whit_query(ads, model, par, t, temp, p_t, p_c, p_sat, hv_t, loads, out, nm=None, kunit=None):
    nm = nm if nm is not None else par["n_m"]
    K = par["K"]
    root, lnterm, hvap = [], [], []
    for n in loads:
        th = n / nm
        if n <= 0 or th >= 1:
            root.append(enc(1.0))
            lnterm.append(enc(math.log(p_sat * K)) if model == "Langmuir" else NOVAL)
            hvap.append(NOVAL)
            continue
        tht = th ** t
        r = (1 - tht) ** (1 / t)
        root.append(enc(r))
        lnterm.append(enc(math.log(p_sat * K * (tht / (1 - tht)) ** ((t - 1) / t))))
        p = th / (K * r)
        if p_t <= p <= p_c:
            try:
                hvap.append(enc(hvap_direct(ads, p)))
            except Exception:
                hvap.append(NOVAL)
        else:
            hvap.append(NOVAL)
    return {"k": "whit", "model": model, "T": enc(temp), "nm": enc(nm), "Kunit": enc(kunit[0] if kunit else K), "punit": kunit[1] if kunit else "Pa", "t": enc(t), "pt": enc(p_t), "pc": enc(p_c), "psat": enc(p_sat),
            "n": [enc(v) for v in loads], "root": root, "lnterm": lnterm, "hvap": hvap, "hvap_t": enc(hv_t),
            "rn": [enc(v) for v in out["loading"]], "rh": [enc(v) for v in out["enthalpy_sorption"]]}
