"""C11 - the reduced spreading pressure equals the integral of loading over ln p.

1. TLC checks spec/SpreadingMC exhaustively: the symbolic integrals  rat + SUM c ln(arg)  of spec/Spreading.tla
   satisfy p d(pi)/dp = L(p) against the model equations of spec/Models.tla, vanish at p = 0, and the
   point-isotherm integral PiPoint is continuous, additive over segments and exact for Henry data, on
   every enumerated parameter vector / data set / query.
2. The symbolic forms are evaluated in float64 and compared with model.spreading_pressure() (exact grid).
3. Relational contract on a geometric pressure grid (general parameters, all 13 models that expose a
   spreading pressure): TLC (SpreadingOracle!GeoStep) forms Simpson sums of the observed loadings and
   requires additivity + integral identity, monotonicity, zero limit and the derivative clause.
4. ModelIsotherm.spreading_pressure_at with pressures given in other units / modes.
5. PointIsotherm.spreading_pressure_at on every enumerated data set x query (below / inside / at the edge of
   the range), with foreign pressure units and modes, against PiPoint: in float64 (1e-9) and, with the
   logarithms of the inputs supplied as observations, inside TLC (PtStep); plus the geometric contract.
"""
import json
import math
import random
from concurrent.futures import ThreadPoolExecutor

from ..common import Run, MachineryError, quiet_pygaps, exc_class
from .. import tlc
from ..encode import dec_dec
from ..models_common import frac, fpar, par_key, build, denc as dec_enc, history_records, elementwise_records, wrapper_elementwise_records, integer_records

PID = "C11"
TOL_CLOSED = 1e-9     # analytic antiderivatives of the library
TOL_QUAD = 1e-7       # scipy.integrate.quad based ones (Toth, Jensen-Seaton)
ZERO_ABS = 1e-12
MAT = {"name": "verif_mat_c11", "density": 1.737, "molar_mass": 419.3}


def _relerr(a, b):
    d = max(abs(a), abs(b))
    return 0.0 if d == 0 else abs(a - b) / d


def sym_value(rat, logs):
    return float(frac(rat)) + sum(float(frac(t["c"])) * math.log(float(frac(t["arg"]))) for t in logs)


def sp_call(fn, p, **kw):
    """-> ('val', float) | ('refused', cls) | ('exc', cls, msg) | ('bad', repr)"""
    try:
        out = fn(p, **kw)
    except Exception as e:  # noqa: BLE001
        c = exc_class(e)
        if c in ("CalculationError", "ParameterError"):
            return ("refused", c, str(e)[:160])
        return ("exc", c, str(e)[:160])
    try:
        import numpy
        v = numpy.asarray(out, dtype=float).ravel()
        if v.size != 1:
            return ("bad", f"shape {v.shape}")
        v = float(v[0])
    except Exception:  # noqa: BLE001
        return ("bad", repr(out)[:80])
    if not math.isfinite(v):
        return ("bad", repr(v))
    return ("val", v)


class Batch:
    """all observation records of a run are judged by one (parallel) TLC oracle invocation"""

    def __init__(self):
        self.recs, self.handlers = [], []

    def add(self, rec, handler):
        self.recs.append(rec)
        self.handlers.append(handler)

    def flush(self, run, rng):
        answers = oracle_parallel("SpreadingOracle", self.recs)
        for h, a in zip(self.handlers, answers):
            h(a)
        run.add("traces_validated_against_impl", len(self.recs))
        for kind in ("geo", "pt", "hist", "elem"):
            idx = [i for i, r in enumerate(self.recs) if r["k"] == kind]
            if idx:
                k = idx[rng.randrange(len(idx))]
                r = dict(self.recs[k])
                if kind == "geo":
                    r["pts"] = r["pts"][:3] + ["..."] + r["pts"][-2:]
                if kind == "hist":
                    r["evals"] = r["evals"][:2] + ["..."]
                run.sample({"kind": "observation record judged by SpreadingOracle (%s)" % {"geo": "GeoStep", "pt": "PtStep", "hist": "HistStep", "elem": "ElemStep"}[kind],
                            "record": r, "answer": answers[k]}, limit=8)


def _noval(o):
    """observed-class of a call that produced no number (the arguments were valid: a refusal is not a value either)"""
    return {"refused": "refused:", "exc": "exception:"}.get(o[0], "") + (o[1] if o[0] in ("refused", "exc") else "no finite number")


def oracle_parallel(module, recs, workers=4, timeout=900):
    if len(recs) < 40:
        return tlc.oracle(module, recs, timeout=timeout)
    n = (len(recs) + workers - 1) // workers
    parts = [recs[i:i + n] for i in range(0, len(recs), n)]
    with ThreadPoolExecutor(max_workers=workers) as ex:
        res = list(ex.map(lambda part: tlc.oracle(module, part, timeout=timeout, heap="3g"), parts))
    return [a for part in res for a in part]


# ------------------------------------------------------------------ 2. symbolic integrals vs the library
def replay_sym(run, sym, quad, rng, stats):
    for model in sorted(sym):
        tol = TOL_QUAD if model in quad else TOL_CLOSED
        site = f"{model}.spreading_pressure"
        for entry in sorted(sym[model], key=lambda e: par_key(e["par"])):
            mdl = build(model, entry["par"])
            off = float(frac(entry["offset"]))
            rows = [{"p": [0, 1], "rat": [0, 1], "logs": []}] + list(entry["rows"])
            for k, r in enumerate(rows):
                p = float(frac(r["p"]))
                exp = sym_value(r["rat"], r["logs"])
                run.count(("sym", model, par_key(entry["par"]), k), nontrivial=k > 0)
                clause = "zero_limit" if k == 0 else "integral"
                detail = {"model": model, "parameters": fpar(entry["par"]), "call": "spreading_pressure", "argument": p, "expected": exp,
                          "symbolic": {"rat": r["rat"], "logs": r["logs"]}}
                o = sp_call(mdl.spreading_pressure, p)
                if o[0] != "val":
                    run.violation({"site": site, "clause": clause, "observed": _noval(o)}, {**detail, "message": o[-1]})
                    continue
                v = o[1]
                ok = abs(v) <= ZERO_ABS if k == 0 else _relerr(v, exp) <= tol
                if ok:
                    if k > 0:
                        stats[model] = max(stats.get(model, 0.0), _relerr(v, exp))
                    continue
                # classification of the wrong behaviour as the descriptive model predicts it
                observed = "mismatch"
                if off != 0 and abs((v - exp) - off) <= 1e-9 * max(abs(off), abs(v)):
                    observed = "constant offset n_m*tht/2"
                run.violation({"site": site, "clause": clause, "observed": observed}, {**detail, "returned": v, "difference": v - exp})
            if rng.random() < 0.01:
                run.sample({"kind": "symbolic integral evaluated against spreading_pressure()", "model": model, "parameters": entry["par"], "row": entry["rows"][-1]})


# ------------------------------------------------------------------ 3./4. geometric-grid contract
def geo_grid(top, meta):
    per, octs = int(meta["per_octave"]), int(meta["octaves"])
    n = per * octs
    r = 2.0 ** (1.0 / per)
    return [top * r ** (k - n) for k in range(n + 1)]


def geo_record(model, par, meta, kind, ps, f_load, f_pi):
    """Observe n_k and pi_k; returns (record or None, problems)."""
    pts, problems = [], []
    for p in ps:
        a, b = f_load(p), f_pi(p)
        if a[0] != "val" or b[0] != "val":
            problems.append((p, a, b))
            continue
        pts.append([dec_enc(a[1]), dec_enc(b[1])])
    pz = ps[-1] * 2.0 ** (-int(meta["zexp"]))
    a, b = f_load(pz), f_pi(pz)
    if a[0] != "val" or b[0] != "val":
        problems.append((pz, a, b))
    if problems:
        return None, problems
    return {"k": "geo", "model": model, "par": par, "h": meta["lnr"], "w": int(meta["window"]), "kind": kind, "pts": pts,
            "z": [dec_enc(a[1]), dec_enc(b[1])]}, []


def loading_call(mdl):
    import numpy

    def f(p):
        try:
            v = float(numpy.asarray(mdl.loading(p), dtype=float).ravel()[0])
        except Exception as e:  # noqa: BLE001
            return ("exc", exc_class(e), str(e)[:120])
        return ("val", v) if math.isfinite(v) else ("bad", repr(v))
    return f


def judge_geo(run, site, model, par_float, ctx, ans, offset, observed_pi0):
    seen = set()
    for b in sorted(ans["bad"], key=lambda x: (x["clause"], x["at"])):
        c = b["clause"]
        if c in seen:
            continue
        seen.add(c)
        observed = {"integral": "differs from the Simpson sum of the observed loadings", "integral_total": "differs from the Simpson sum of the observed loadings",
                    "monotone": "decreasing", "zero_limit": "does not vanish like the loading", "derivative": "p*dpi/dp differs from the loading"}[c]
        if c == "zero_limit" and offset and abs(observed_pi0 - offset) <= 1e-2 * abs(offset):
            observed = "constant offset n_m*tht/2"
        run.violation({"site": site, "clause": c, "observed": observed, **ctx},
                      {"model": model, "parameters": par_float, "first_failing_grid_index": b["at"],
                       "failing": sorted((x["clause"], x["at"]) for x in ans["bad"])[:16],
                       "spec": "Spreading!GeoStep"})


def relational(run, grid, meta, rng, thorough, batch):
    for model in sorted(grid):
        entries = sorted(grid[model], key=lambda e: par_key(e["par"]))
        if not thorough:
            rng.shuffle(entries)
            entries = entries[:max(3, len(entries) // 5)]
        for entry in entries:
            mdl = build(model, entry["par"])
            for top in entry["tops"]:
                ps = geo_grid(float(frac(top)), meta)
                rec, problems = geo_record(model, entry["par"], meta, "model", ps, loading_call(mdl),
                                           lambda p: sp_call(mdl.spreading_pressure, p))
                run.count(("geo", model, par_key(entry["par"]), tuple(top)), n=len(ps))
                if problems:
                    p, a, b = problems[0]
                    bad = b if b[0] != "val" else a
                    run.violation({"site": f"{model}.spreading_pressure" if b[0] != "val" else f"{model}.loading", "clause": "value",
                                   "observed": _noval(bad)},
                                  {"model": model, "parameters": fpar(entry["par"]), "argument": p, "message": bad[-1]})
                    continue
                batch.add(rec, lambda ans, model=model, entry=entry, rec=rec: judge_geo(
                    run, f"{model}.spreading_pressure", model, fpar(entry["par"]), {}, ans, float(frac(entry["offset"])), dec_dec(rec["z"][1])))


def unit_factors(pairs):
    """[(from_rep, to_rep)] pressure representations -> numeric factor via spec/UnitsOracle + Atoms."""
    import pygaps
    from ..units_common import Atoms
    probe = pygaps.PointIsotherm(pressure=[1.0, 2.0], loading=[1.0, 2.0], material=dict(MAT), adsorbate="nitrogen", temperature=77.344,
                                 pressure_mode="absolute", pressure_unit="bar", loading_basis="molar", loading_unit="mmol",
                                 material_basis="mass", material_unit="g")
    atoms = Atoms(probe.adsorbate, 77.344, probe.material)
    kind = lambda rep: "P" if rep[0] in ("absolute", "relative", "relative%") else "L"   # noqa: E731
    ans = tlc.oracle("UnitsOracle", [{"k": kind(f), "f": list(f), "t": list(t), "m": ["mass", "g"]} for f, t in pairs]
                     + [{"k": "T", "f": ["x", "°C"], "t": ["x", "K"], "m": ["x", "x"]}])
    tk = [x["k"] for x in ans[-1]["allowed"] if x["kind"] == "val"]
    if len(tk) != 1:
        raise MachineryError("unit specification gives no unique kelvin offset for degC")
    out = {"degC_to_K": tk[0] * 273.15}
    for (f, t), a in zip(pairs, ans):
        vals = [x for x in a["allowed"] if x["kind"] == "val"]
        out[(f, t)] = atoms.value(vals[0]["vec"]) if vals else None
    return out


FOREIGN = [("absolute", "kPa"), ("absolute", "torr"), ("absolute", "atm"), ("relative", "none"), ("relative%", "none")]


NATIVES = [("absolute", "bar"), ("relative", "none")]
MMOL_MOL = (("molar", "mmol"), ("molar", "mol"))


def model_isotherm_units(run, meta, rng, thorough, batch, fac):
    """spreading_pressure_at(p given in another unit/mode) == bare spreading_pressure(p converted)."""
    import pygaps
    from ..units_common import dec
    natives = NATIVES
    cases = [("Langmuir", {"K": [7, 5], "n_m": [17, 5]}, [0.05, 0.8, 6.0]),
             ("BET", {"n_m": [3, 4], "C": [80, 1], "N": [2, 5]}, [0.05, 0.5, 1.2]),
             ("Toth", {"n_m": [17, 5], "K": [13, 2], "t": [3, 4]}, [0.02, 0.3, 1.7]),
             ("DSLangmuir", {"n_m1": [3, 4], "K1": [13, 2], "n_m2": [6, 5], "K2": [9, 10]}, [0.03, 0.5, 4.0]),
             # the models whose equation holds the temperature: the isotherm must hand them kelvin whatever its temperature unit
             ("DR", {"n_m": [17, 5], "e": [1500, 1]}, [0.1, 0.4, 0.9]),
             ("DA", {"n_m": [17, 5], "e": [1500, 1], "m": [5, 2]}, [0.1, 0.4, 0.9])]
    for model, par, ps in cases:
        bare = build(model, par)
        bare.__init_parameters__({"temperature": 77.344})
        for n0, (tunit, tval) in [(n0, t) for n0 in natives for t in (("K", 77.344), ("°C", 77.344 - fac["degC_to_K"]))]:
            if tunit != "K" and model not in ("DR", "DA", "Langmuir"):
                continue
            iso = pygaps.ModelIsotherm(model=build(model, par), material=dict(MAT), adsorbate="nitrogen", temperature=tval, temperature_unit=tunit,
                                       pressure_mode=n0[0], pressure_unit=dec(n0[1]), loading_basis="molar", loading_unit="mmol",
                                       material_basis="mass", material_unit="g")
            for f in FOREIGN + [n0]:
                k = fac[(n0, f)]
                ctx = {"native_mode": n0[0], "pressure_mode": f[0], "temperature_unit": tunit}
                kw = dict(pressure_mode=f[0], pressure_unit=dec(f[1]))
                for p in ps:
                    run.count(("miso", model, n0, f, p), nontrivial=f != n0)
                    exp = float(bare.spreading_pressure(p))
                    o = sp_call(iso.spreading_pressure_at, p * k, **kw)
                    if o[0] != "val" or _relerr(o[1], exp) > TOL_CLOSED:
                        run.violation({"site": "ModelIsotherm.spreading_pressure_at", "clause": "units", **ctx,
                                       "observed": _noval(o) if o[0] != "val" else "differs from the bare model at the converted pressure"},
                                      {"parameters": fpar(par), "argument": p * k, "kwargs": kw, "expected": exp, "returned": o[1:], "unit_factor": k})
                # the integral identity through the wrapper, in the foreign unit
                if tunit == "K" and model not in ("DR", "DA") and (thorough or f in (("absolute", "torr"), ("relative", "none"))):
                    grid = [x * k for x in geo_grid(ps[-1], meta)]
                    rec, problems = geo_record(model, par, meta, "model", grid,
                                               lambda q: sp_call(iso.loading_at, q, **kw), lambda q: sp_call(iso.spreading_pressure_at, q, **kw))
                    if rec is not None:
                        run.count(("miso-geo", model, tuple(sorted(ctx.items()))), n=len(rec["pts"]))
                        batch.add(rec, lambda ans, model=model, par=par, ctx=ctx: judge_geo(
                            run, "ModelIsotherm.spreading_pressure_at", model, fpar(par), ctx, ans, 0.0, 0.0))
                    else:
                        q, a, b = problems[0]
                        run.violation({"site": "ModelIsotherm.spreading_pressure_at" if b[0] != "val" else "ModelIsotherm.loading_at", "clause": "units", **ctx,
                                       "observed": _noval(b if b[0] != "val" else a)}, {"model": model, "argument": q, "kwargs": kw, "problem": [a, b]})


# ------------------------------------------------------------------ 5. point isotherms
def make_point(P, N, layout="ads", **units):
    """layout 'ads': the points are the (only) adsorption branch.  'des_desc' / 'des_asc': a two-branch isotherm whose DESORPTION
    branch consists of the points, stored from the highest pressure downwards (the usual way) / in ascending order; the adsorption
    branch holds different loadings at the same pressures plus a higher turning point, so that reading the wrong branch shows."""
    import pygaps
    kw = dict(pressure_mode="absolute", pressure_unit="bar", loading_basis="molar", loading_unit="mmol", material_basis="mass", material_unit="g")
    kw.update(units)
    P, N = [float(x) for x in P], [float(x) for x in N]
    if layout == "ads":
        return pygaps.PointIsotherm(pressure=P, loading=N, material=dict(MAT), adsorbate="nitrogen", temperature=77.344, **kw)
    ads_p, ads_n = P + [2.0 * P[-1]], [0.37 * n for n in N] + [1.25 * N[-1]]
    des = list(zip(P, N))
    if layout == "des_desc":
        des = des[::-1]
    return pygaps.PointIsotherm(pressure=ads_p + [p for p, _ in des], loading=ads_n + [n for _, n in des],
                                branch=[0] * len(ads_p) + [1] * len(des), material=dict(MAT), adsorbate="nitrogen", temperature=77.344, **kw)


def qclass(i, nq):
    return "below_range" if i == 0 else ("first_point" if i == 1 else ("edge" if i == nq - 1 else ("data_point" if i % 2 == 1 else "inside")))


def point_isotherms(run, scen, meta, rng, thorough, batch, fac):
    from ..units_common import dec
    scen = sorted(scen, key=lambda s: json.dumps([s["P"], s["N"]]))
    if not thorough:
        rng.shuffle(scen)
        scen = scen[:90]
    lfac = fac[MMOL_MOL]
    npt = 0
    site = "PointIsotherm.spreading_pressure_at"
    for si, s in enumerate(scen):
        P, N = [frac(x) for x in s["P"]], [frac(x) for x in s["N"]]
        # the same points as the only adsorption branch, and as the DESORPTION branch of a two-branch isotherm stored
        # descending (the usual way) / ascending, queried with branch='des'; PtStep sorts the stored points by pressure
        layouts = ("ads", "des_desc", "des_asc") if thorough else ("ads", ("des_desc", "des_asc")[si % 2])
        for layout in layouts:
            bkw = {} if layout == "ads" else {"branch": "des"}
            stored_P, stored_N = (s["P"][::-1], s["N"][::-1]) if layout == "des_desc" else (s["P"], s["N"])
            nq = len(s["qs"])
            shared = make_point(P, N, layout)
            # which unit arguments accompany this data set (all of them over the run)
            foreign = FOREIGN if thorough else [FOREIGN[si % len(FOREIGN)]]
            all_exps = sorted(int(x) for x in meta["pt_exps"])
            exps = all_exps if thorough else [all_exps[(si + (0 if layout == "ads" else 2)) % len(all_exps)]]
            for i, qd in enumerate(s["qs"]):
                q = float(frac(qd["q"]))
                exp = sym_value(qd["rat"], qd["logs"])
                cls = qclass(i, nq)
                # a query below the range must see a freshly built object (range guard depends on caches: property C04)
                variants = [("native", {}, 1.0)] + [(f"{f[0]}:{f[1]}", dict(pressure_mode=f[0], pressure_unit=dec(f[1])), fac[(("absolute", "bar"), f)]) for f in foreign]
                if i % 3 == 0:
                    variants.append(("loading_unit:mol", dict(loading_unit="mol"), None))
                # the same measurement in a pressure unit 10^e away (data AND query rescaled): the integral is unchanged
                # (Spreading!PtScaleInvariant); negative exponents also as relative pressure (micropore data, p/p0 ~ 1e-9)
                for e10 in exps:
                    variants.append((f"scaled:{e10}", {}, ("scaled", e10, {})))
                    if e10 < 0 and (thorough or i % 2 == 0):
                        variants.append((f"scaled-relative:{e10}", {}, ("scaled", e10, dict(pressure_mode="relative", pressure_unit=None))))
                for vname, kw, k in variants:
                    e10, P_used = 0, P
                    if isinstance(k, tuple):
                        _, e10, modekw = k
                        sc = 10.0 ** e10
                        P_used = [float(x) * sc for x in P]
                        iso = make_point(P_used, N, layout, **modekw)
                        k = sc
                    else:
                        iso = make_point(P, N, layout) if (cls == "below_range" or vname != "native") else shared
                    scale = 1.0
                    qq = q
                    if k is None:
                        scale = lfac
                    else:
                        qq = q * k
                        if cls in ("first_point", "data_point", "edge") and kw:
                            # "at a data point / at the edge of the range" in the foreign unit: the data point as the library reports it
                            j = (i - 1) // 2
                            qlib = float(sorted(iso.pressure(**bkw, **kw))[j])
                            if _relerr(qlib, qq) > 1e-9:
                                raise MachineryError(f"stored pressure {q} bar reported as {qlib} in {kw}, unit specification says {qq}")
                            qq = qlib
                    run.count(("pt", layout, json.dumps([s["P"], s["N"]]), i, vname), nontrivial=len(qd["logs"]) > 0)
                    if e10:
                        ctx = {"branch": layout, "query": cls, "units": "native" if vname.startswith("scaled:") else "relative",
                               "magnitude": "pressures x 1e%+d" % e10}
                    else:
                        ctx = {"branch": layout, "query": cls, "units": "native" if vname == "native" else ("loading_unit" if k is None else kw["pressure_mode"])}
                    detail = {"pressure": [float(x) for x in P_used], "loading": [float(x) for x in N], "query": qq, "kwargs": {**bkw, **kw}, "layout": layout,
                              "isotherm_units": modekw if e10 else {},
                              "expected": exp * scale, "symbolic": {"rat": qd["rat"], "logs": qd["logs"]}}
                    o = sp_call(iso.spreading_pressure_at, qq, **bkw, **kw)
                    if o[0] != "val":
                        run.violation({"site": site, "clause": "value", **ctx, "observed": _noval(o)}, {**detail, "message": o[-1]})
                        continue
                    v = o[1]
                    if _relerr(v, exp * scale) > TOL_CLOSED:
                        run.violation({"site": site, "clause": "integral", **ctx, "observed": "differs from the integral of the interpolant"},
                                      {**detail, "returned": v})
                    if vname == "native" or e10:
                        npt += 1
                        batch.add({"k": "pt", "P": stored_P, "N": stored_N, "qp": qd["q"], "e10": e10,
                                   "lns": [dec_enc(math.log(float(frac(t["arg"])))) for t in qd["logs"]], "pi": dec_enc(v)},
                                  lambda ans, ctx=ctx, detail=detail, v=v: None if ans["ok"] else run.violation(
                                      {"site": site, "clause": "integral", **ctx, "observed": "differs from the integral of the interpolant"},
                                      {**detail, "returned": v, "spec": "Spreading!PtStep", "expected_decimal": dec_dec(ans["expected"])}))
                        # loading_at of the same fresh object is the integrand (derivative clause uses it in the spec)
                        if cls != "below_range":
                            ol = sp_call(iso.loading_at, qq, **bkw)
                            if ol[0] == "val" and _relerr(ol[1], float(frac(qd["n"]))) > TOL_CLOSED:
                                run.violation({"site": "PointIsotherm.loading_at", "clause": "interpolant", **ctx, "observed": "differs from linear interpolation"},
                                              {**detail, "returned": ol[1], "expected_loading": float(frac(qd["n"]))})
    run.set(point_datasets=len(scen), point_queries=npt)

    # geometric contract on measured-like data (loading_at as integrand): additivity, monotone, zero, derivative
    datasets = [([0.02, 0.1, 0.4, 1.0, 2.5, 6.0], [0.4, 1.3, 2.6, 3.4, 3.9, 4.1]),
                ([0.05, 0.5, 5.0], [0.2, 1.9, 9.5]),
                ([0.01, 0.03, 0.2, 0.9, 3.0, 4.0, 8.0], [0.5, 0.9, 1.4, 1.5, 2.8, 3.0, 3.05])]
    for di, (P, N) in enumerate(datasets if thorough else datasets[:2]):
        for f in [("absolute", "bar")] + (FOREIGN[:4] if thorough else [FOREIGN[(di + 1) % 4]]):
            k = 1.0 if f == ("absolute", "bar") else fac[(("absolute", "bar"), f)]
            kw = {} if f == ("absolute", "bar") else dict(pressure_mode=f[0], pressure_unit=dec(f[1]))
            iso = make_point(P, N)
            top = P[-1]
            grid = [x * k for x in geo_grid(top, meta)]
            # below-range queries first, on objects whose interpolator cache is still empty
            below = [q for q in grid if q < P[0] * k]
            inside = [q for q in grid if q >= P[0] * k]
            pts, bad = [], None
            for q in below:
                fresh = make_point(P, N)
                o = sp_call(fresh.spreading_pressure_at, q, **kw)
                if o[0] != "val":
                    bad = (q, o)
                    break
                # Henry continuation: the integrand below the first point is n_1 p / p_1
                pts.append([dec_enc(N[0] * q / (P[0] * k)), dec_enc(o[1])])
            if bad is None:
                edge = float(iso.pressure(**kw)[-1]) if kw else top
                for q in inside:
                    q = min(q, edge)
                    ol, o = sp_call(iso.loading_at, q, **kw), sp_call(iso.spreading_pressure_at, q, **kw)
                    if o[0] != "val" or ol[0] != "val":
                        bad = (q, o if o[0] != "val" else ol)
                        break
                    pts.append([dec_enc(ol[1]), dec_enc(o[1])])
            ctx = {"query": "geometric grid", "units": "native" if not kw else f[0]}
            if bad is not None:
                run.violation({"site": site, "clause": "value", **ctx, "observed": _noval(bad[1])},
                              {"pressure": P, "loading": N, "query": bad[0], "kwargs": kw, "message": bad[1][-1]})
                continue
            qz = top * k * 2.0 ** (-int(meta["zexp"]))
            oz = sp_call(make_point(P, N).spreading_pressure_at, qz, **kw)
            if oz[0] != "val":
                run.violation({"site": site, "clause": "value", **ctx, "observed": _noval(oz)},
                              {"pressure": P, "loading": N, "query": qz, "kwargs": kw, "message": oz[-1]})
                continue
            run.count(("pt-geo", json.dumps([P, N, kw])), n=len(pts))
            batch.add({"k": "geo", "model": "Point", "par": {}, "h": meta["lnr"], "w": int(meta["window"]), "kind": "point", "pts": pts,
                       "z": [dec_enc(N[0] * qz / (P[0] * k)), dec_enc(oz[1])]},
                      lambda ans, ctx=ctx, P=P, N=N, kw=kw: judge_geo(run, site, "PointIsotherm", {"pressure": P, "loading": N, "kwargs": kw}, ctx, ans, 0.0, 0.0))


# ------------------------------------------------------------------ entry points
def main(tier, seed):
    quiet_pygaps()
    import numpy
    numpy.seterr(all="ignore")
    run = Run(PID, tier, seed, "exploration")
    rng = random.Random(seed)
    thorough = tier == "thorough"

    res = tlc.must_pass("SpreadingMC", timeout=600)
    run.set(states=res["distinct"], transitions=res["states_generated"], tlc_depth=res["depth"],
            tlc_invariants=["ModelRows (p*dpi/dp = L, args > 0, Langmuir cross-check)", "ModelZero", "PointRows", "QueryShape"])
    if res["distinct"] < 3000:
        raise MachineryError(f"SpreadingMC explored only {res['distinct']} states")

    ans = tlc.oracle("SpreadingOracle", [{"k": "sym"}, {"k": "grid"}, {"k": "ptscen"}], timeout=600)
    sym, grid, meta, scen = ans[0]["sym"], ans[1]["grid"], ans[1]["meta"], ans[2]["scen"]
    import pygaps.modelling as pm
    expected_models = sorted(set(pm._IAST_MODELS) | {"GAB", "Freundlich", "DR", "DA"})
    if sorted(sym) != expected_models:
        raise MachineryError(f"specification covers {sorted(sym)}, property names {expected_models}")
    if abs(dec_dec(meta["lnr"]) - math.log(2.0) / int(meta["per_octave"])) > 1e-9:
        raise MachineryError("LnR constant of the specification is not ln(2)/per_octave")

    stats = {}
    replay_sym(run, sym, set(meta["quad"]), rng, stats)
    run.set(symbolic_worst_relative_error={k: float(f"{v:.3g}") for k, v in sorted(stats.items()) if v > 1e-13})
    batch = Batch()
    fac = unit_factors([(n0, f) for n0 in NATIVES for f in FOREIGN + NATIVES] + [MMOL_MOL])
    relational(run, grid, meta, rng, thorough, batch)
    model_isotherm_units(run, meta, rng, thorough, batch, fac)
    point_isotherms(run, scen, meta, rng, thorough, batch, fac)
    hp = tlc.oracle("SpreadingOracle", [{"k": "histplan"}, {"k": "elemplan"}, {"k": "intplan"}], timeout=600)
    plans, eplan = hp[0]["plans"], hp[1]
    # elementwise clause where arrays are accepted (the analytic antiderivatives): unsorted arrays with a repeated element
    import pygaps
    ne = 0
    for model in sorted(eplan["args"]):
        items = elementwise_records(run, model, "loading", eplan["args"][model], eplan["patterns"], [("spreading_pressure", "args")],
                                    ("ndarray", "series"), 5 if thorough else 2, 3 if thorough else 2, rng,
                                    value_clause_of={"spreading_pressure": "integral"})
        entries = sorted(eplan["args"][model], key=lambda e: par_key(e["par"]))
        e = entries[rng.randrange(len(entries))]
        iso = pygaps.ModelIsotherm(model=build(model, e["par"]), material=dict(MAT), adsorbate="nitrogen", temperature=77.344,
                                   pressure_mode="absolute", pressure_unit="bar", loading_basis="molar", loading_unit="mmol",
                                   material_basis="mass", material_unit="g")
        items += wrapper_elementwise_records(run, iso, iso.model, model, [("spreading_pressure_at", "spreading_pressure", [float(frac(x)) for x in e["xs"]])],
                                             eplan["patterns"], 2 if thorough else 1, rng)
        for rec, handler in items:
            batch.add(rec, handler)
            ne += 1
    run.set(elementwise_records=ne)
    # integer-typed pressures (whole numbers chosen by the specification inside the validity range) vs the float of equal value
    intplan = hp[2]
    ni = 0
    for model in sorted(intplan):
        entries = sorted(intplan[model], key=lambda e: (-len(e["pressures"]), par_key(e["par"])))
        best = [e for e in entries if len(e["pressures"]) == len(entries[0]["pressures"])]
        e = best[rng.randrange(len(best))]
        ints = [int(v) for v in e["pressures"]]
        mdl = build(model, e["par"])
        iso = pygaps.ModelIsotherm(model=build(model, e["par"]), material=dict(MAT), adsorbate="nitrogen", temperature=77.344,
                                   pressure_mode="absolute", pressure_unit="bar", loading_basis="molar", loading_unit="mmol",
                                   material_basis="mass", material_unit="g")
        for rec, handler in (integer_records(run, model, model, mdl.spreading_pressure, "spreading_pressure", ints,
                                             ("python_int", "numpy_int64", "0d_int_array", "int_ndarray", "int_series"), "bare")
                             + integer_records(run, "ModelIsotherm", model, iso.spreading_pressure_at, "spreading_pressure_at", ints,
                                               ("python_int", "int_ndarray", "int_list", "int_series"), "wrapper")):
            batch.add(rec, handler)
            ni += 1
    run.set(integer_input_records=ni)
    nh = 0
    for model in sorted(plans):
        for rec, handler in history_records(run, plans[model], model, "loading", [("loading", "args"), ("spreading_pressure", "args")],
                                            ("scalar",), 5 if thorough else 2, rng):
            batch.add(rec, handler)
            nh += 1
    run.set(histories_replayed=nh)
    batch.flush(run, rng)

    run.set(exhaustive=False,
            rule="(a) symbolic integrals of spec/Spreading.tla on the exact grid (11 models with an elementary integral, 223 parameter vectors x 4-6 pressures + the zero point) "
                 "evaluated in float64 against spreading_pressure(); (b) geometric pressure grids (16 points per octave, 12 octaves, 2 top pressures) for "
                 + ("all" if thorough else "a seeded fifth (at least 3 per model) of the") + " general parameter vectors of all 13 models, judged by TLC with Simpson sums; "
                 "(b2) histories on one model object (evaluate, another instance of the class, every parameter overwritten in place, re-fit in place; same pressures "
                 "re-evaluated after each step) for " + ("5" if thorough else "2") + " seeded parameter-vector pairs per model, judged against a fresh model (Models!HistStep); "
                 "(b3) elementwise clause for the 9 models whose spreading_pressure accepts arrays: unsorted 6-element ndarray / pandas.Series with a repeated element (patterns from the "
                 "specification) judged position by position against the scalar call, and ndarray/list/Series through ModelIsotherm.spreading_pressure_at (Models!ElemStep); "
                 "(b4) integer-typed pressures (Python int, numpy.int64, 0-d/1-d integer arrays, Series, lists through the wrapper) against the float of equal value; "
                 "(c) ModelIsotherm.spreading_pressure_at for 6 models (incl. DR/DA with the temperature stored in K and in degC) x 2 native modes x 6 pressure representations; (d) "
                 + ("all 475" if thorough else "90 seeded") + " enumerated point-isotherm data sets x every query class (below range, first point, inside, data point, edge) "
                 "x native / foreign pressure unit or mode / loading unit / the whole measurement rescaled in pressure by 10^e (e in -9, -6, -3, 3, 6; negative e also as relative pressure), each data set as the only adsorption branch and as the desorption branch (branch='des') of a two-branch isotherm stored descending / ascending. non-trivial = positive pressure (a) / query beyond the Henry segment (d); "
                 "distinct = distinct (part, model or data set, parameters, pressure or query, unit variant)")
    run.assume("the integrand is the library's own loading()/loading_at() of the same object (that it is the model equation / the linear interpolant is checked by C10 and here by PiPoint's n)")
    run.assume("Simpson sums in DecFloat: 2e-7 relative error per operation; in-spec tolerances 2e-5 (windows), 5e-3 (central-difference derivative), 5e-2 (zero limit at p_top/4096)")
    run.assume("point isotherms are queried on freshly built objects below the data range (the cache-dependent range guard is property C04); queries above the range are outside the quantifier")
    return run.finish()


def replay(path):
    quiet_pygaps()
    with open(path) as f:
        rep = json.load(f)
    d = rep.get("detail") or {}
    print(json.dumps(rep["sig"], sort_keys=True))
    if d.get("call") == "spreading_pressure":
        from pygaps.modelling import get_isotherm_model
        mdl = get_isotherm_model(d["model"], parameters=d["parameters"])
        o = sp_call(mdl.spreading_pressure, d["argument"])
        print(f"{d['model']}.spreading_pressure({d['argument']}) with {d['parameters']} -> {o}; expected {d['expected']}")
        return 0 if o[0] == "val" and abs(o[1] - d["expected"]) <= 1e-7 * max(1e-300, abs(d["expected"])) + ZERO_ABS else 1
    if "pressure" in d and "query" in d:
        iso = make_point(d["pressure"], d["loading"], d.get("layout", "ads"), **(d.get("isotherm_units") or {}))
        o = sp_call(iso.spreading_pressure_at, d["query"], **(d.get("kwargs") or {}))
        print(f"PointIsotherm({d['pressure']}, {d['loading']}).spreading_pressure_at({d['query']}, {d.get('kwargs')}) -> {o}; expected {d.get('expected')}")
        return 0 if o[0] == "val" and "expected" in d and _relerr(o[1], d["expected"]) <= 1e-7 else 1
    print(json.dumps(d, indent=1)[:3000])
    return 1
