"""C14 - linearised characterisation methods (BET, Langmuir, t-plot, alpha-s, DR/DA).

1. TLC checks spec/SelectionMC exhaustively: the selection code (limits -> index window, three-point
   refusal, Rouquerol scan, method defaults), run as a transition system over every grid of <= 7
   pressures, every pair of limits and every Rouquerol shape, always ends in an outcome the
   prescriptive specification allows.  spec/LinearisedMC: transform o governing equation is the
   line whose slope/intercept the parameter formulas invert (exact rationals).
2. Conformance: every row of that scenario space (a seeded slice in the quick tier) is executed on
   the real *_raw functions and on the isotherm entry points; spec/SelectionOracle judges each
   observed window / refusal / section.
3. Exact recovery: spec/LinearisedOracle enumerates generating parameters, supplies the data points
   and the expected outputs as exact rationals, and judges the observed outputs (DecFloat, 1e-5);
   the harness additionally compares in float64 at 1e-6 against the rationals of the specification.
"""
import itertools
import math
import random
from fractions import Fraction

from ..common import Run, exc_class, MachineryError, quiet_pygaps
from .. import tlc
from ..encode import dec_enc
from ..linmeso_common import (NONE, AUTO, NA18, frac, prod, renc, ranks, outcome, wrong_of, TableModel, ExactModel,
                              stored_adsorbate, point_isotherm)

PID = "C14"
SCALE = 20.0
SPACE = {"thorough": (7, 16, 7, "SelectionMC"), "quick": (6, 14, 6, "SelectionMCq")}   # MaxK, MaxL, MaxN, cfg
TOL = 1e-6          # float64 comparison against the specification's rationals
TOL_SEARCH = 1e-3   # DA exponent found by bounded minimisation (and the quantities derived from it)
TOLK = 5            # in-spec DecFloat judgement: 1e-5


def _lim(l, scale=SCALE):
    return None if l == NONE else l / scale


# ------------------------------------------------------------------------------------------------
# 2. windows


def window_sites():
    from pygaps.characterisation.area_bet import area_BET_raw
    from pygaps.characterisation.area_lang import area_langmuir_raw
    from pygaps.characterisation.dr_da_plots import da_plot_raw
    return {
        "bet": ("area_BET_raw", lambda p, n, lim: area_BET_raw(p, n, 0.162, lim), lambda r: (r[6], r[7])),
        "lang": ("area_langmuir_raw", lambda p, n, lim: area_langmuir_raw(p, n, 0.162, lim), lambda r: (r[5], r[6])),
        "da": ("da_plot_raw", lambda p, n, lim: da_plot_raw(p, n, 77.355, 28.0134, 0.806, 2, lim), lambda r: (r[5], r[6])),
    }


def iso_sites():
    from pygaps.characterisation.area_bet import area_BET
    from pygaps.characterisation.area_lang import area_langmuir
    from pygaps.characterisation.dr_da_plots import da_plot, dr_plot
    return {
        "bet": [("area_BET", lambda iso, lim: area_BET(iso, p_limits=lim), lambda r: r["p_limit_indices"])],
        "lang": [("area_langmuir", lambda iso, lim: area_langmuir(iso, p_limits=lim), lambda r: r["p_limit_indices"])],
        "da": [("da_plot", lambda iso, lim: da_plot(iso, exp=2.5, p_limits=lim), lambda r: r["p_limits"]),
               ("dr_plot", lambda iso, lim: dr_plot(iso, p_limits=lim), lambda r: r["p_limits"])],
    }


def generic_loading(p):
    # any positive, increasing data: the window logic must not depend on it
    return 0.01 * 50 * p / ((1 - p) * (1 - p + 50 * p))


def judge_windows(run, recs, meta, section):
    """recs: oracle records (with obs); meta: (site, limits_class, cls, detail) per record."""
    answers = tlc.oracle("SelectionOracle", recs, timeout=600, chunk=30000)
    drift = 0
    for r, (site, lclass, cls, det), a in zip(recs, meta, answers):
        if a["ok"]:
            if r["k"] == "win" and r["obs"] not in a["impl"]:
                drift += 1
                if drift <= 3:
                    run.note(f"MODEL-DRIFT {site}: allowed outcome {r['obs']} differs from the transcription's {a['impl']} for g={r['g']} lo={r['lo']} hi={r['hi']}")
            continue
        if r["k"] == "win":
            wrong = wrong_of(r["obs"], cls, a)
        else:
            wrong = "exception:" + cls if cls else "section is not the set of points inside the limits"
        run.violation({"site": site, "part": section, "limits": lclass, "wrong": wrong},
                      {"record": r, "allowed": a["allowed"], "impl": a["impl"], "detail": det})
    run.add("traces_validated_against_impl", len(recs))
    if drift:
        run.add("model_drift", drift)


def _t(label, t0=[None]):
    import os
    import time
    if os.environ.get("VERIF_DEBUG"):
        now = time.time()
        print(f"  [t] {label}: {now - (t0[0] or now):.1f}s")
        t0[0] = now


def main(tier, seed):
    import numpy
    quiet_pygaps()
    numpy.seterr(all="ignore")
    run = Run(PID, tier, seed, "model_checking")
    rng = random.Random(seed)
    thorough = tier == "thorough"

    # ---- 1. exhaustive design-level checks
    MAXK, MAXL, MAXN, cfg = SPACE[tier]
    res = tlc.must_pass("SelectionMC", cfg=cfg, timeout=600, workers=6)
    init_states = None
    for line in res["out"].splitlines():
        if "Finished computing initial states:" in line:
            init_states = int(line.split("states:")[1].split()[0])
    res2 = tlc.must_pass("LinearisedMC", timeout=300, workers=2)
    run.set(states=res["distinct"] + res2["distinct"], transitions=res["states_generated"] + res2["states_generated"],
            tlc_runs={"SelectionMC": {"distinct": res["distinct"], "generated": res["states_generated"], "depth": res["depth"], "initial": init_states,
                                      "invariants": ["Conforms", "ClosedForm", "Bounds", "SpecSane", "Exactly"]},
                      "LinearisedMC": {"distinct": res2["distinct"], "generated": res2["states_generated"],
                                       "invariants": ["Recovers", "Linear", "TableAgrees", "PointsAgree", "Monolayer"]}})

    _t("mc")
    # ---- the scenario space, from the specification
    space = tlc.oracle("SelectionOracle", [{"k": "space", "maxk": MAXK, "maxl": MAXL, "maxn": MAXN}])[0]["impl"]
    grids = sorted(tuple(g) for g in space["grids"])
    los, his = sorted(space["lo"]), sorted(space["hi"])
    roq = sorted((tuple(g), sorted(tuple(r) for r in rs)) for g, rs in space["roq"])
    n_roq = sum(len(rs) for _, rs in roq)
    n_rows = 4 * len(grids) * len(los) * len(his) + 3 * len(grids) + n_roq
    if init_states is not None and n_rows != init_states:
        raise MachineryError(f"scenario space of the driver ({n_rows} rows) differs from the model-checked one ({init_states} initial states)")

    sites = window_sites()
    parr = {g: numpy.array([k / SCALE for k in g]) for g in grids}
    narr = {g: generic_loading(parr[g]) for g in grids}

    # ---- 2a. manual limits and method defaults on the raw functions
    stride = 1 if thorough else 6
    recs, meta = [], []
    idx = 0
    for m in ("bet", "lang", "da"):
        site, fn, pick = sites[m]
        for g in grids:
            p, n = parr[g], narr[g]
            pairs = [(lo, hi) for lo in los for hi in his]
            if m != "bet":
                pairs.append((AUTO, AUTO))
            for lo, hi in pairs:
                idx += 1
                if lo != AUTO and (idx + seed) % stride:
                    continue
                lim = None if lo == AUTO else (_lim(lo), _lim(hi))
                obs, cls, _ = outcome(lambda: fn(p, n, lim), pick)
                recs.append({"k": "win", "m": m, "g": list(g), "lo": lo, "hi": hi, "r": [], "obs": obs})
                meta.append((site, "default" if lo == AUTO else "manual", cls, None))
                run.count((m, g, lo, hi), nontrivial=len(g) >= 3)
    # ---- 2b. Rouquerol shapes
    site, fn, pick = sites["bet"]
    rstride = 1 if thorough else 4
    for g, rs in roq:
        p = numpy.array([k / 100.0 for k in g])
        for r in rs:
            idx += 1
            if (idx + seed) % rstride:
                continue
            n = numpy.array(r, dtype=float) / (1 - p)
            obs, cls, _ = outcome(lambda: fn(p, n, None), pick)
            recs.append({"k": "win", "m": "bet", "g": list(g), "lo": AUTO, "hi": AUTO, "r": list(r), "obs": obs})
            meta.append((site, "rouquerol", cls, None))
            run.count(("roq", g, r))
    if len(run.cov["samples"]) < 2:
        for j in rng.sample(range(len(recs)), 2):
            run.sample({"call": meta[j][0], "record": recs[j]})
    _t("raw replay")
    judge_windows(run, recs, meta, "raw")
    _t("raw judge")

    # ---- 2c. isotherm entry points (p_limit_indices / p_limits of the result dictionaries)
    isites = iso_sites()
    recs, meta = [], []
    pairs_all = [(lo, hi) for lo in los for hi in his]
    npairs = 40 if thorough else 5
    for g in grids:
        iso = point_isotherm(parr[g], narr[g])
        for m in ("bet", "lang", "da"):
            for site, fn, pick in isites[m]:
                chosen = rng.sample(pairs_all, npairs) + ([(AUTO, AUTO)] if m != "bet" else [])
                for lo, hi in chosen:
                    lim = None if lo == AUTO else (_lim(lo), _lim(hi))
                    obs, cls, _ = outcome(lambda: fn(iso, lim), pick)
                    recs.append({"k": "win", "m": m, "g": list(g), "lo": lo, "hi": hi, "r": [], "obs": obs})
                    meta.append((site, "default" if lo == AUTO else "manual", cls, None))
                    run.count((site, g, lo, hi), nontrivial=len(g) >= 3)
    nroq_iso = 4000 if thorough else 400
    flat = [(g, r) for g, rs in roq for r in rs]
    for g, r in rng.sample(flat, nroq_iso):
        p = numpy.array([k / 100.0 for k in g])
        iso = point_isotherm(p, numpy.array(r, dtype=float) / (1 - p))
        site, fn, pick = isites["bet"][0]
        obs, cls, _ = outcome(lambda: fn(iso, None), pick)
        recs.append({"k": "win", "m": "bet", "g": list(g), "lo": AUTO, "hi": AUTO, "r": list(r), "obs": obs})
        meta.append((site, "rouquerol", cls, None))
        run.count((site, g, r))
    run.sample({"call": meta[-1][0], "record": recs[-1]})
    _t("iso replay")
    judge_windows(run, recs, meta, "isotherm")
    _t("iso judge")

    # ---- 2d. sections of t-plot / alpha-s (strictly inside the thickness limits)
    sections(run, rng, thorough, grids, parr, seed, MAXL)
    _t("sections")

    # ---- 3. exact recovery
    recovery(run, rng, thorough, seed)
    _t("recovery")

    run.set(exhaustive=bool(thorough),
            rule="selection: every strictly increasing grid of 1..7 pressures over 0.1..0.7 x every pair of limits over {None, 0, 0.05, .., 0.8} "
                 "(and no limits: method defaults) for BET / Langmuir / DA, every Rouquerol shape (up/down patterns of n(1-p)) on grids of 3..7 of 10 "
                 "pressures spanning 0.01..0.9, every (grid, lo, hi) for t-plot / alpha-s sections; quick tier: grids of <= 6 pressures over 0.1..0.6, limits up to 0.7; "
                 + ("all rows" if thorough else "a seeded 1/6 (Rouquerol 1/4) slice")
                 + " on the *_raw functions, a seeded sample on the isotherm entry points; recovery: generating parameters x grids x limits enumerated by "
                 "spec/LinearisedOracle; non-trivial = grid of >= 3 points (a fit is possible); distinct = distinct (entry point, grid, limits / shape / parameter vector)")
    run.assume("math.log / exp and the library's own thickness curves and DA model class generate the t-plot and DR/DA data (inputs, not oracles)")
    run.assume("a point exactly on a limit may or may not be selected; a Rouquerol window may end on the last increasing point or on the first point after it")
    return run.finish()


# ------------------------------------------------------------------------------------------------


def sections(run, rng, thorough, grids, parr, seed, MAXL):
    import numpy
    from pygaps.characterisation.t_plots import t_plot_raw, t_plot
    from pygaps.characterisation.alphas_plots import alpha_s_raw, alpha_s
    tmodel = TableModel({k: k / 2.0 for k in range(1, 41)}, SCALE)   # thickness = 10 p (exact halves)
    lims = list(range(0, MAXL + 1))
    stride = 1 if thorough else 6
    recs, meta = [], []
    idx = 0
    skipped = 0

    def add(site, g, lo, hi, fn, lclass="manual"):
        nonlocal skipped
        try:
            results = fn()
        except Exception:  # noqa: BLE001
            # fewer than two selected points cannot be regressed; the property says nothing about that
            skipped += 1
            return
        if not results:
            skipped += 1
            return
        sec = [int(i) for i in numpy.asarray(results[0]["section"]).ravel()]
        recs.append({"k": "sec", "g": list(g), "lo": lo, "hi": hi, "obs": sec})
        meta.append((site, lclass, None, None))
        run.count((site, tuple(g), lo, hi), nontrivial=len(sec) >= 2)

    for g in grids:
        if len(g) < 2:
            continue
        p = parr[g]
        t = tmodel(p)
        n = 2.0 * t + 1.0
        ref = numpy.array([float(k) for k in g])        # alpha = ref / 2 = thickness values
        for lo in lims:
            for hi in lims:
                idx += 1
                if (idx + seed) % stride:
                    continue
                add("t_plot_raw", g, lo, hi, lambda: t_plot_raw(n, p, tmodel, 0.8, 28.0, (lo / 2.0, hi / 2.0))[0])
                add("alpha_s_raw", g, lo, hi, lambda: alpha_s_raw(n, ref, 2.0, 100.0, 0.8, 28.0, (lo / 2.0, hi / 2.0))[0])
    # isotherm entry points: t_plot with a callable model; alpha_s against a reference isotherm
    # (alpha values are arbitrary floats there: encoded by rank, the specification only orders them)
    big = [g for g in grids if len(g) >= 4]
    for g in rng.sample(big, len(big) if thorough else 12):
        p = parr[g]
        t = tmodel(p)
        iso = point_isotherm(p, 2.0 * t + 1.0, loading_unit="mmol")
        ref = point_isotherm(p, generic_loading(p), loading_unit="mmol")
        for lo, hi in rng.sample([(a, b) for a in lims for b in lims if a < b], 12 if thorough else 5):
            add("t_plot", g, lo, hi, lambda: t_plot(iso, thickness_model=tmodel, t_limits=(lo / 2.0, hi / 2.0))["results"])
        try:
            curve = alpha_s(iso, ref, reducing_pressure=float(p[1]), t_limits=(-1.0, 1e9))["alpha_curve"]
        except Exception as e:  # noqa: BLE001
            run.violation({"site": "alpha_s", "part": "sections", "wrong": "exception:" + exc_class(e)}, {"grid": list(g), "message": str(e)[:200]})
            continue
        cands = sorted(set([float(c) for c in curve] + [float(a + b) / 2 for a, b in zip(curve[:-1], curve[1:])] + [0.0, float(curve[-1]) + 1.0]))
        for lo, hi in rng.sample([(a, b) for a in cands for b in cands if a < b], 8 if thorough else 4):
            gr, (rlo, rhi) = ranks(curve, lo, hi)
            add("alpha_s", gr, rlo, rhi, lambda: alpha_s(iso, ref, reducing_pressure=float(p[1]), t_limits=(lo, hi))["results"])
    if recs:
        run.sample({"call": meta[0][0], "record": recs[len(recs) // 2]})
    run.add("sections_not_judged_no_fit", skipped)
    judge_windows(run, recs, meta, "sections")


# ------------------------------------------------------------------------------------------------


def _close(obs, exp, tol, scale=0.0):
    return abs(obs - exp) <= tol * (max(abs(obs), abs(exp)) + scale)


class Recovery:
    """Collects (scenario, observed outputs); compares in float64 against the rationals of the
    specification and lets the specification judge the DecFloat-encoded observations."""

    def __init__(self, run):
        self.run = run
        self.items = []      # (site, cfg, query, obs dict, scales dict, tol dict)
        self.not_judged = 0

    def add(self, site, cfg, query, obs, scales=None, tols=None, win=None, ps=None):
        """win / ps: the automatic BET window the call reported and the rational grid (Rouquerol clause)."""
        self.items.append((site, cfg, query, obs, scales or {}, tols or {}, win, ps))

    def finish(self):
        run = self.run
        judge = []
        for site, cfg, q, obs, scales, tols, win, ps in self.items:
            o = []
            for name, v in obs.items():
                v = float(v)
                if not math.isfinite(v):
                    run.violation({"site": site, "part": "recovery", "config": cfg, "output": name, "wrong": "non-finite output"}, {"query": q, "obs": obs})
                    continue
                o.append([name, dec_enc(v), dec_enc(scales.get(name, 0.0)), TOLK if tols.get(name, TOL) <= 10.0 ** (-TOLK) else 3])
            j = dict(q, k="judge", tolk=TOLK, obs=o, win=[int(win[0]), int(win[1])] if win is not None else [-1, -1])
            if win is not None:
                j["ps"] = ps
            judge.append(j)
        answers = tlc.oracle("LinearisedOracle", judge, timeout=600, chunk=4000) if judge else []
        worst = {}
        for (site, cfg, q, obs, scales, tols, win, ps), a in zip(self.items, answers):
            exp = a["expect"]
            bad_spec = set(a["bad"]) if isinstance(a["bad"], list) else set()
            if "rouquerol_window" in bad_spec:
                run.violation({"site": site, "part": "recovery", "config": cfg, "output": "window", "wrong": "automatic window is not the Rouquerol window of the exact data"},
                              {"query": q, "observed_window": [int(win[0]), int(win[1])], "points": len(ps), "last_pressure": ps[-1]})
            for name, v in obs.items():
                v = float(v)
                if not math.isfinite(v):
                    continue
                if not exp.get(name) and name != "area":
                    continue                       # not supplied by the specification (irrational p_monolayer)
                if name == "area" and "area_over_NA18" in exp:
                    e = float(prod(exp["area_over_NA18"]) * NA18)
                else:
                    e = float(prod(exp[name]))
                tol = tols.get(name, TOL)
                sc = scales.get(name, 0.0)
                err = abs(v - e) / (max(abs(v), abs(e)) + sc) if (v != e) else 0.0
                wkey = (site + ("[" + cfg + ", m=" + str(frac(q["ex"])) + "]" if q["m"] == "da" else ""), name)
                worst[wkey] = max(worst.get(wkey, 0.0), err)
                if err > tol or name in bad_spec:
                    ratio = v / e if e else float("inf")
                    sig = {"site": site, "part": "recovery", "config": cfg, "output": name, "wrong": "does not return the generating value"}
                    if q["m"] == "da":
                        sig["generating_exponent"] = str(frac(q["ex"]))
                    run.violation(sig, {"query": {k: q[k] for k in q if k != "ps"}, "observed": v, "expected": e, "rel_err": err,
                                        "observed_over_expected": ratio, "tolerance": tol, "rejected_by_spec_judge": name in bad_spec})
            run.count((site, cfg, tuple(sorted((k, str(v)) for k, v in q.items() if k not in ("ps", "k")))))
        run.add("traces_validated_against_impl", len(judge))
        run.set(recovery_worst_rel_err={f"{s}.{n}": float(f"{e:.3g}") for (s, n), e in sorted(worst.items())})


def recovery(run, rng, thorough, seed):
    import numpy
    from pygaps.characterisation.area_bet import area_BET_raw, area_BET
    from pygaps.characterisation.area_lang import area_langmuir_raw, area_langmuir
    from pygaps.characterisation.t_plots import t_plot_raw, t_plot
    from pygaps.characterisation.alphas_plots import alpha_s_raw, alpha_s
    from pygaps.characterisation.dr_da_plots import da_plot_raw, da_plot, dr_plot
    from pygaps.characterisation.models_thickness import get_thickness_model
    from pygaps.modelling.da import DA
    from pygaps.modelling.dr import DR
    sp = tlc.oracle("LinearisedOracle", [{"k": "space"}])[0]["expect"]
    NM = sorted(frac(x) for x in sp["nm"])
    CS = sorted(sp["c"])
    KS = sorted(frac(x) for x in sp["kk"])
    SIG = sorted(frac(x) for x in sp["sigma"])
    SL = sorted(frac(x) for x in sp["s"])
    IC = sorted(frac(x) for x in sp["i"])
    VT = sorted(frac(x) for x in sp["vt"])
    EPS = sorted(frac(x) for x in sp["eps"])
    EX = sorted(frac(x) for x in sp["ex"])
    GRIDS = sorted(([frac(x) for x in g] for g in sp["grids"]), key=lambda g: (len(g), g))
    # adsorbate property sets (sigma nm2, M g/mol, rho g/cm3); the first is the library's nitrogen
    ADS = {Fraction(81, 500): ("N2", None),
           Fraction(71, 500): ("verif_ads_a", dict(cross_sectional_area=Fraction(71, 500), molar_mass=Fraction(9987, 250), liquid_density=Fraction(7, 5), surface_tension=Fraction(12))),
           Fraction(1, 5): ("verif_ads_b", dict(cross_sectional_area=Fraction(1, 5), molar_mass=Fraction(30), liquid_density=Fraction(4, 5), surface_tension=Fraction(9)))}
    for name, props in ADS.values():
        if props:
            stored_adsorbate(name, **props)
    MR = [(Fraction(9987, 250), Fraction(7, 5), "verif_ads_a"), (Fraction(30), Fraction(4, 5), "verif_ads_b")]
    rec = Recovery(run)
    keep = (lambda i: True) if thorough else (lambda i: (i + seed) % 6 == 0)

    def manual_limits(ps):
        return (float(ps[0] + ps[1]) / 2, float(ps[-2] + ps[-1]) / 2)

    # ---------------- BET and Langmuir: data points come from the specification, exactly
    scen = []
    i = 0
    for nm, c, sg, g in itertools.product(NM, CS, SIG, GRIDS):
        i += 1
        # dense grids up to 0.99 with high C (Rouquerol steps of a few 1e-6) are run in every tier and for every seed
        dense = c >= 1600 and g[-1] >= Fraction(98, 100) and sg == Fraction(81, 500)
        if keep(i) or dense:
            scen.append({"k": "gen", "m": "bet", "nm": renc(nm), "c": c, "sigma": renc(sg), "ps": [renc(p) for p in g]})
    for nm, kk, sg, g in itertools.product(NM, KS, SIG, GRIDS):
        i += 1
        if keep(i):
            scen.append({"k": "gen", "m": "lang", "nm": renc(nm), "kk": renc(kk), "sigma": renc(sg), "ps": [renc(p) for p in g]})
    # (scenarios of the alpha-s parts are built here as well: one TLC invocation serves all of them)
    refgrid = [Fraction(k, 20) for k in range(1, 17)]                 # contains the reducing pressure 0.4
    pr = numpy.array([float(x) for x in refgrid])
    refs = [Fraction(k * k + 3 * k, 7) for k in range(1, 17)]         # any increasing reference loading
    scen_as = []
    i = 0
    for s, ic, (mm, rho, adsname), aref, apt in itertools.product(SL, IC, MR, (Fraction(100), Fraction(1234, 10)), (Fraction(5, 2), Fraction(1, 3))):
        i += 1
        if keep(i):
            scen_as.append({"k": "gen", "m": "as", "s": renc(s), "i": renc(ic), "aref": renc(aref), "apt": renc(apt), "mm": renc(mm), "rho": renc(rho),
                         "ps": [renc(x) for x in refs]})
    p04 = Fraction(2, 5)
    scen_iso = []
    i = 0
    for nm, c, sg in itertools.product(NM[1:], (9, 100, 400), SIG):
        i += 1
        if not keep(i):
            continue
        adsname, props = ADS[sg]
        base = {"nm": renc(nm), "c": c, "sigma": renc(sg), "pr": renc(p04)}
        scen_iso.append(dict(base, k="gen", m="self", ps=[renc(x) for x in refgrid]))
        s, ic = SL[i % len(SL)], IC[(i // 2) % len(IC)]
        mm, rho = (props["molar_mass"], props["liquid_density"]) if props else (Fraction(1), Fraction(1))
        scen_iso.append(dict(base, k="gen", m="asiso", s=renc(s), i=renc(ic), mm=renc(mm), rho=renc(rho), ps=[renc(x) for x in refgrid]))
        # a Langmuir reference (its Langmuir area is a generating quantity) and a different sample s * alpha + i
        kk = KS[i % 3]
        scen_iso.append({"k": "gen", "m": "lang", "nm": renc(nm), "kk": renc(kk), "sigma": renc(sg), "ps": [renc(x) for x in refgrid]})
        scen_iso.append({"k": "gen", "m": "asisoL", "kk": renc(kk), "sigma": renc(sg), "pr": renc(p04), "s": renc(s), "i": renc(ic), "mm": renc(mm), "rho": renc(rho),
                         "ps": [renc(x) for x in refgrid]})
    allgens = tlc.oracle("LinearisedOracle", scen + scen_as + scen_iso, timeout=600, chunk=700)
    gens, gens_as, gens_iso = allgens[:len(scen)], allgens[len(scen):len(scen) + len(scen_as)], allgens[len(scen) + len(scen_as):]
    for q, a in zip(scen, gens):
        ps = [frac(x) for x in q["ps"]]
        p = numpy.array([float(x) for x in ps])
        n = numpy.array([float(prod(f)) for f in a["points"]])
        sg = frac(q["sigma"])
        q0 = {k: v for k, v in q.items() if k != "ps"}
        adsname = ADS[sg][0]
        iso = None
        for lim, lname in ((None, "default limits"), (manual_limits(ps), "manual limits")):
            try:
                if q["m"] == "bet":
                    r = area_BET_raw(p, n, float(sg), lim)
                    obs = dict(area=r[0], c_const=r[1], n_monolayer=r[2], p_monolayer=r[3], slope=r[4], intercept=r[5], corr_coef=r[8])
                    if not a["expect"]["p_monolayer"]:
                        obs.pop("p_monolayer")
                    auto = dict(win=(r[6], r[7]), ps=q["ps"]) if lim is None else {}
                    rec.add("area_BET_raw", lname, q0, obs, **auto)
                    if iso is None:
                        iso = point_isotherm(p, n, adsorbate=adsname, temperature=77.355)
                    d = area_BET(iso, p_limits=lim)
                    obs = dict(area=d["area"], c_const=d["c_const"], n_monolayer=d["n_monolayer"], p_monolayer=d["p_monolayer"],
                               slope=d["bet_slope"], intercept=d["bet_intercept"], corr_coef=d["corr_coef"])
                    if not a["expect"]["p_monolayer"]:
                        obs.pop("p_monolayer")
                    auto = dict(win=d["p_limit_indices"], ps=q["ps"]) if lim is None else {}
                    rec.add("area_BET", lname, q0, obs, **auto)
                else:
                    r = area_langmuir_raw(p, n, float(sg), lim)
                    obs = dict(area=r[0], langmuir_const=r[1], n_monolayer=r[2], slope=r[3], intercept=r[4], corr_coef=r[7])
                    rec.add("area_langmuir_raw", lname, q0, obs)
                    if iso is None:
                        iso = point_isotherm(p, n, adsorbate=adsname, temperature=77.355)
                    d = area_langmuir(iso, p_limits=lim)
                    obs = dict(area=d["area"], langmuir_const=d["langmuir_const"], n_monolayer=d["n_monolayer"],
                               slope=d["langmuir_slope"], intercept=d["langmuir_intercept"], corr_coef=d["corr_coef"])
                    rec.add("area_langmuir", lname, q0, obs)
            except Exception as e:  # noqa: BLE001
                if exc_class(e) == "CalculationError":
                    rec.not_judged += 1     # refusal (too few points in the window): selection logic is judged in part 2
                    continue
                run.violation({"site": q["m"], "part": "recovery", "config": lname, "wrong": "exception:" + exc_class(e)}, {"query": q0, "message": str(e)[:200]})
    run.sample({"recovery_scenario": {k: v for k, v in scen[0].items() if k != "ps"}, "grid": scen[0]["ps"][:6], "expected": gens[0]["expect"]})

    _t("  bet/lang")
    # ---------------- t-plot: n = s t(p) + i on the library's thickness curves and on an exact table
    tab = ExactModel((x, 50 * x + Fraction(1, 10)) for g in GRIDS for x in g)                 # t(p) = 50 p + 0.1 nm, exact on every grid
    tmodels = [("Halsey", get_thickness_model("Halsey")), ("Harkins/Jura", get_thickness_model("Harkins/Jura")), ("table", tab)]
    i = 0
    for s, ic, (mm, rho, adsname), (tname, tm), g in itertools.product(SL, IC, MR, tmodels, GRIDS):
        i += 1
        if not keep(i):
            continue
        p = numpy.array([float(x) for x in g])
        t = tm(p)
        n = float(s) * t + float(ic)                       # mmol/g
        q0 = {"m": "tp", "s": renc(s), "i": renc(ic), "mm": renc(mm), "rho": renc(rho)}
        scales = {"intercept": float(n.max()), "adsorbed_volume": float(n.max()) * float(mm / rho) / 1000}
        iso = point_isotherm(p, n, adsorbate=adsname, temperature=100.0, loading_unit="mmol")
        for lim, lname in (((float(t.min()) - 1.0, float(t.max()) + 1.0), "manual limits"),
                           ((float(t[0] + t[1]) / 2, float(t[-2] + t[-1]) / 2), "manual limits"), (None, "automatic sections")):
            for site, fn in (("t_plot_raw", lambda: t_plot_raw(n, p, tm, float(rho), float(mm), lim)[0]),
                             ("t_plot", lambda: t_plot(iso, thickness_model=(tm if tname == "table" else tname), t_limits=lim)["results"])):
                try:
                    results = fn()
                except Exception as e:  # noqa: BLE001
                    run.violation({"site": site, "part": "recovery", "config": lname, "wrong": "exception:" + exc_class(e)}, {"query": q0, "thickness": tname, "message": str(e)[:200]})
                    continue
                if not results:
                    rec.not_judged += 1
                    continue
                for d in results:
                    rec.add(site, lname + " / " + ("table thickness" if tname == "table" else "library thickness curve"), q0,
                            dict(slope=d["slope"], intercept=d["intercept"], area=d["area"], adsorbed_volume=d["adsorbed_volume"]), scales)

    _t("  tplot")
    # ---------------- alpha-s on raw arrays: n = s * ref / ref(0.4) + i
    scen, gens = scen_as, gens_as
    rl = numpy.array([float(x) for x in refs])
    for q, a in zip(scen, gens):
        q0 = {k: v for k, v in q.items() if k not in ("ps", "k")}
        n = numpy.array([float(prod(f)) for f in a["points"]])
        mm, rho, apt, aref = frac(q["mm"]), frac(q["rho"]), frac(q["apt"]), frac(q["aref"])
        scales = {"intercept": float(n.max()), "adsorbed_volume": float(n.max()) * float(mm / rho) / 1000}
        alpha = rl / float(apt)
        for lim in ((float(alpha.min()) - 1, float(alpha.max()) + 1), (float(alpha[1] + alpha[2]) / 2, float(alpha[-3] + alpha[-2]) / 2)):
            try:
                results = alpha_s_raw(n, rl, float(apt), float(aref), float(rho), float(mm), lim)[0]
            except Exception as e:  # noqa: BLE001
                run.violation({"site": "alpha_s_raw", "part": "recovery", "config": "manual limits", "wrong": "exception:" + exc_class(e)}, {"query": q0, "message": str(e)[:200]})
                continue
            if not results:
                rec.not_judged += 1
            for d in results:
                rec.add("alpha_s_raw", "manual limits", q0, dict(slope=d["slope"], intercept=d["intercept"], area=d["area"], adsorbed_volume=d["adsorbed_volume"]), scales)

    # ---------------- alpha_s on isotherms: the reference is an exact BET isotherm (the library derives its
    # area itself); the sample is the reference itself, or s * alpha + i
    scen, gens = scen_iso, gens_iso
    ref = None
    for q, a in zip(scen, gens):
        q0 = {k: v for k, v in q.items() if k not in ("ps", "k")}
        adsname, props = ADS[frac(q["sigma"])]
        temp = 100.0 if props else 77.355
        if q["m"] in ("self", "lang"):
            # the reference: an exact BET isotherm, or an exact Langmuir isotherm
            nref = numpy.array([float(prod(f) * 1000) for f in a["points"]])                  # mmol/g
            ref = point_isotherm(pr, nref, adsorbate=adsname, temperature=temp, loading_unit="mmol")
            sample, cfg = ref, "against itself"
            scales = {"intercept": float(nref.max()), "adsorbed_volume": float(nref.max())}
        else:
            ic = frac(q["i"])
            n = numpy.array([float(prod(f) + ic) for f in a["points"]])
            sample = point_isotherm(pr, n, adsorbate=adsname, temperature=temp, loading_unit="mmol")
            cfg = "against a BET reference" if q["m"] == "asiso" else "against a Langmuir reference"
            scales = {"intercept": float(n.max()), "adsorbed_volume": float(n.max())}
        modes = ("BET", None) if q["m"] in ("self", "asiso") else ("langmuir",)
        for mode, lim in itertools.product(modes, ((0.0, 1e9), (0.3, 1.5))):
            mcfg = cfg + (", reference_area=" + repr(mode) if mode != "BET" else "")
            try:
                d = alpha_s(sample, ref, reference_area=mode, reducing_pressure=0.4, t_limits=lim)
            except Exception as e:  # noqa: BLE001
                run.violation({"site": "alpha_s", "part": "recovery", "config": mcfg, "wrong": "exception:" + exc_class(e)}, {"query": q0, "message": str(e)[:200]})
                continue
            if not d["results"]:
                rec.not_judged += 1
            for r in d["results"]:
                if q["m"] == "lang":
                    obs = dict(area=r["area"])      # against itself the area is the reference's Langmuir area
                else:
                    obs = dict(slope=r["slope"], intercept=r["intercept"], area=r["area"])
                    if props or q["m"] == "self":
                        obs["adsorbed_volume"] = r["adsorbed_volume"]
                rec.add("alpha_s", mcfg, q0, obs, scales)
        if q["m"] == "asiso":
            # the same sample with the reference area given as a number: area = A_ref / n_ref(0.4) * s
            c = q["c"]
            n04 = 1000 * frac(q["nm"]) * Fraction(c) * p04 / ((1 - p04) * (1 - p04 + c * p04))
            aref = Fraction(2469, 10)
            if max(n04.numerator, n04.denominator) <= 40000:
                q1 = {"m": "as", "s": q["s"], "i": q["i"], "aref": renc(aref), "apt": renc(n04), "mm": q["mm"], "rho": q["rho"]}
                try:
                    d = alpha_s(sample, ref, reference_area=float(aref), reducing_pressure=0.4, t_limits=(0.0, 1e9))
                except Exception as e:  # noqa: BLE001
                    run.violation({"site": "alpha_s", "part": "recovery", "config": "numeric reference area", "wrong": "exception:" + exc_class(e)},
                                  {"query": q1, "message": str(e)[:200],
                                   "repro": "alpha_s(iso, ref_iso, reference_area=246.9) -> AttributeError: 'float' object has no attribute 'lower'"})
                else:
                    for r in d["results"]:
                        obs = dict(slope=r["slope"], intercept=r["intercept"], area=r["area"])
                        if props:
                            obs["adsorbed_volume"] = r["adsorbed_volume"]
                        rec.add("alpha_s", "numeric reference area", q1, obs, scales)

    _t("  alphas")
    # ---------------- DR / DA: data from the library's own model classes
    i = 0
    T = 77.355
    dagrids = [g for g in GRIDS if len(g) <= 20] if not thorough else GRIDS
    for vt, eps, ex, (mm, rho, adsname), g in itertools.product(VT, EPS, EX, MR, dagrids):
        i += 1
        if not keep(i):
            continue
        q0 = {"m": "da", "vt": renc(vt), "eps": renc(eps), "ex": renc(ex), "mm": renc(mm), "rho": renc(rho)}
        nt = float(vt * rho / mm)
        p = numpy.array([float(x) for x in g])
        if ex == 2:
            model = DR(parameters={"n_m": nt, "e": float(eps)})
        else:
            model = DA(parameters={"n_m": nt, "e": float(eps), "m": float(ex)})
        model.__init_parameters__({"temperature": T})
        n = model.loading(p)
        if not (numpy.all(numpy.isfinite(n)) and numpy.all(n > 0)):
            rec.not_judged += 1
            continue
        iso = point_isotherm(p, n, adsorbate=adsname, temperature=T)
        lims = (None, manual_limits(g))
        for lim in lims:
            for given in (True, False):
                cfg = ("exponent given" if given else "exponent searched")
                tols = None if given else {"pore_volume": TOL_SEARCH, "adsorption_potential": TOL_SEARCH, "exponent": TOL_SEARCH}
                calls = [("da_plot_raw", lambda: da_plot_raw(p, n, T, float(mm), float(rho), float(ex) if given else None, lim), None),
                         ("da_plot", lambda: da_plot(iso, exp=float(ex) if given else None, p_limits=lim), "dict")]
                if ex == 2 and given:
                    calls.append(("dr_plot", lambda: dr_plot(iso, p_limits=lim), "dict"))
                for site, fn, kind in calls:
                    try:
                        r = fn()
                    except Exception as e:  # noqa: BLE001
                        if exc_class(e) == "CalculationError":
                            rec.not_judged += 1
                            continue
                        run.violation({"site": site, "part": "recovery", "config": cfg, "wrong": "exception:" + exc_class(e)}, {"query": q0, "message": str(e)[:200]})
                        continue
                    if kind == "dict":
                        obs = dict(pore_volume=r["pore_volume"], adsorption_potential=r["adsorption_potential"])
                        if "exponent" in r:
                            obs["exponent"] = r["exponent"]
                        elif not given:
                            run.violation({"site": site, "part": "recovery", "config": cfg, "wrong": "fitted exponent not reported"}, {"query": q0})
                    else:
                        obs = dict(pore_volume=r[0], adsorption_potential=r[1], exponent=r[2])
                    rec.add(site, cfg, q0, obs, None, tols)
    _t("  da")
    history(run, rec, alpha_s, t_plot, da_plot, dr_plot, DA, DR)
    _t("  history")
    rec.finish()
    _t("  judge")
    run.add("recovery_not_judged_refused_or_no_section", rec.not_judged)


def history(run, rec, alpha_s, t_plot, da_plot, dr_plot, DA, DR):
    """Call histories on the entry points that read adsorbate properties at the isotherm temperature: the same
    backend adsorbate at two temperatures alternately, two adsorbates at one temperature.  Every call is judged
    like a first call: area and volumes are normalised by M / rho(T) taken from CoolProp directly (an input), so
    the specification's expectation is the generating slope / intercept / capacity itself.
    Also: alpha_s with the desorption branch of a reversible reference must equal the adsorption-branch result."""
    import numpy
    import pygaps
    from ..units_common import coolprop_direct
    n2, ar = pygaps.Adsorbate.find("N2"), pygaps.Adsorbate.find("Ar")
    seq = [("N2", n2, 77.355), ("N2", n2, 95.0), ("N2", n2, 77.355), ("Ar", ar, 95.0), ("N2", n2, 95.0), ("Ar", ar, 87.3), ("Ar", ar, 95.0)]
    kinds = ["first call", "same adsorbate, other temperature", "same adsorbate, other temperature", "other adsorbate, same temperature",
             "other adsorbate, same temperature", "same adsorbate, other temperature", "same adsorbate, other temperature"]
    p = numpy.array([k / 20 for k in range(1, 17)])
    s, ic = Fraction(7, 3), Fraction(5, 4)
    refs = [Fraction(k * k + 3 * k, 7) for k in range(1, 17)]
    apt = refs[7]                                   # reference loading at p = 0.4
    rl = numpy.array([float(x) for x in refs])
    thick = ExactModel((Fraction(k, 20), Fraction(k, 4) + Fraction(1, 10)) for k in range(1, 17))
    tvals = thick(p)
    nt = Fraction(1, 100)                           # DA capacity mol/g; volume = nt M / rho
    for step, (name, ads, T) in enumerate(seq):
        cp = coolprop_direct(ads, T)
        if cp is None:
            run.note(f"history: CoolProp state for {name} at {T} K not available; step skipped")
            continue
        vm = cp["M"] / cp["rhoLmass"]              # cm3/mol
        cfg = "call history: " + kinds[step]
        det = f"step {step + 1} of {[(a, t) for a, _, t in seq]}"
        # t-plot: n = s t + i
        n = float(s) * tvals + float(ic)
        iso = point_isotherm(p, n, adsorbate=name, temperature=T, loading_unit="mmol")
        q0 = {"m": "tp", "s": renc(s), "i": renc(ic), "mm": [1, 1], "rho": [1, 1]}
        try:
            for d in t_plot(iso, thickness_model=thick, t_limits=(0.0, 1e9))["results"]:
                rec.add("t_plot", cfg, q0, dict(slope=d["slope"], intercept=d["intercept"], area=d["area"] / vm, adsorbed_volume=d["adsorbed_volume"] / vm))
        except Exception as e:  # noqa: BLE001
            run.violation({"site": "t_plot", "part": "recovery", "config": cfg, "wrong": "exception:" + exc_class(e)}, {"history": det, "message": str(e)[:200]})
        # alpha-s with a numeric reference area: n = s ref / ref(0.4) + i
        ref = point_isotherm(p, rl, adsorbate=name, temperature=T, loading_unit="mmol")
        smp = point_isotherm(p, float(s) * rl / float(apt) + float(ic), adsorbate=name, temperature=T, loading_unit="mmol")
        q1 = {"m": "as", "s": renc(s), "i": renc(ic), "aref": [2469, 10], "apt": renc(apt), "mm": [1, 1], "rho": [1, 1]}
        try:
            for d in alpha_s(smp, ref, reference_area=246.9, reducing_pressure=0.4, t_limits=(0.0, 1e9))["results"]:
                rec.add("alpha_s", cfg, q1, dict(slope=d["slope"], intercept=d["intercept"], area=d["area"], adsorbed_volume=d["adsorbed_volume"] / vm))
        except Exception as e:  # noqa: BLE001
            run.violation({"site": "alpha_s", "part": "recovery", "config": cfg, "wrong": "exception:" + exc_class(e)}, {"history": det, "message": str(e)[:200]})
        # DR / DA: capacity nt, energy 8000 J/mol
        for ex, fn, site in ((Fraction(2), lambda i_: dr_plot(i_), "dr_plot"), (Fraction(5, 2), lambda i_: da_plot(i_, exp=2.5), "da_plot")):
            model = DR(parameters={"n_m": float(nt), "e": 8000.0}) if ex == 2 else DA(parameters={"n_m": float(nt), "e": 8000.0, "m": float(ex)})
            model.__init_parameters__({"temperature": T})
            iso = point_isotherm(p, model.loading(p), adsorbate=name, temperature=T)
            q2 = {"m": "da", "vt": renc(nt), "eps": [8000, 1], "ex": renc(ex), "mm": [1, 1], "rho": [1, 1]}
            try:
                d = fn(iso)
                rec.add(site, cfg, q2, dict(pore_volume=d["pore_volume"] / vm, adsorption_potential=d["adsorption_potential"]))
            except Exception as e:  # noqa: BLE001
                run.violation({"site": site, "part": "recovery", "config": cfg, "wrong": "exception:" + exc_class(e)}, {"history": det, "message": str(e)[:200]})
    # desorption branch of a reversible reference (its desorption branch retraces the adsorption branch)
    pp = numpy.concatenate([p, p[::-1][1:]])
    ref2 = point_isotherm(pp, numpy.concatenate([rl, rl[::-1][1:]]), adsorbate="N2", temperature=77.355, loading_unit="mmol")
    smp2 = point_isotherm(p[:-1], float(s) * rl[:-1] / float(apt) + float(ic), adsorbate="N2", temperature=77.355, loading_unit="mmol")
    cp = coolprop_direct(n2, 77.355)
    vm = cp["M"] / cp["rhoLmass"]
    for br in ("ads", "des"):
        cfg = "reference branch '%s' of a reversible reference" % br
        q1 = {"m": "as", "s": renc(s), "i": renc(ic), "aref": [2469, 10], "apt": renc(apt), "mm": [1, 1], "rho": [1, 1]}
        try:
            for d in alpha_s(smp2, ref2, reference_area=246.9, reducing_pressure=0.4, branch_ref=br, t_limits=(0.0, 1e9))["results"]:
                rec.add("alpha_s", cfg, q1, dict(slope=d["slope"], intercept=d["intercept"], area=d["area"], adsorbed_volume=d["adsorbed_volume"] / vm))
        except Exception as e:  # noqa: BLE001
            run.violation({"site": "alpha_s", "part": "recovery", "config": cfg, "wrong": "exception:" + exc_class(e)}, {"message": str(e)[:200]})

    # a reference WITH hysteresis (desorption branch above the adsorption branch, not an affine image of it) and every
    # combination of sample branch x reference branch: the sample branch is exactly linear in the reference branch named
    # by branch_ref (and not in the other one), so slope and intercept are recovered only if the reference curve AND the
    # reducing point are both read from branch_ref and the sample from branch
    refd = [refs[k - 1] + Fraction(k * (20 - k), 9) for k in range(1, 17)]
    rd = numpy.array([float(x) for x in refd])
    ref3 = point_isotherm(pp, numpy.concatenate([rl, rd[::-1][1:]]), adsorbate="N2", temperature=77.355, loading_unit="mmol")
    curve = {"ads": (rl, apt), "des": (rd, refd[7])}
    other = {"ads": "des", "des": "ads"}
    for br in ("ads", "des"):
        for brf in ("ads", "des"):
            cfg = "sample branch '%s' against reference branch '%s' of a reference with hysteresis" % (br, brf)
            good = float(s) * curve[brf][0] / float(curve[brf][1]) + float(ic)
            decoy = float(s) * curve[other[brf]][0] / float(curve[other[brf]][1]) + float(ic) + 0.5
            a_, d_ = (good, decoy) if br == "ads" else (decoy, good)
            smp3 = point_isotherm(numpy.concatenate([p[:-1], p[:-1][::-1][1:]]), numpy.concatenate([a_[:-1], d_[:-1][::-1][1:]]),
                                  adsorbate="N2", temperature=77.355, loading_unit="mmol")
            q1 = {"m": "as", "s": renc(s), "i": renc(ic), "aref": [2469, 10], "apt": renc(curve[brf][1]), "mm": [1, 1], "rho": [1, 1]}
            try:
                for d in alpha_s(smp3, ref3, reference_area=246.9, reducing_pressure=0.4, branch=br, branch_ref=brf, t_limits=(0.0, 1e9))["results"]:
                    rec.add("alpha_s", cfg, q1, dict(slope=d["slope"], intercept=d["intercept"], area=d["area"], adsorbed_volume=d["adsorbed_volume"] / vm))
            except Exception as e:  # noqa: BLE001
                run.violation({"site": "alpha_s", "part": "recovery", "config": cfg, "wrong": "exception:" + exc_class(e)}, {"message": str(e)[:200]})


def replay(path):
    """./check C14 --replay replays/C14-....json : re-execute a recorded window/section case on the current
    tree and let the specification judge it again (other records are printed)."""
    import json
    import numpy
    quiet_pygaps()
    numpy.seterr(all="ignore")
    with open(path) as f:
        d = json.load(f)
    print("signature:", json.dumps(d["sig"], sort_keys=True))
    rec = (d.get("detail") or {}).get("record")
    if not rec or rec.get("k") != "win" or d["sig"].get("part") != "raw":
        print(json.dumps(d.get("detail"), indent=1)[:4000])
        print("(recorded case printed; run ./check C14 to re-evaluate it on the current tree)")
        return 0
    site, fn, pick = window_sites()[rec["m"]]
    if rec["r"]:
        p = numpy.array([k / 100.0 for k in rec["g"]])
        n = numpy.array(rec["r"], dtype=float) / (1 - p)
    else:
        p = numpy.array([k / SCALE for k in rec["g"]])
        n = generic_loading(p)
    lim = None if rec["lo"] == AUTO else (_lim(rec["lo"]), _lim(rec["hi"]))
    obs, cls, _ = outcome(lambda: fn(p, n, lim), pick)
    a = tlc.oracle("SelectionOracle", [dict(rec, obs=obs)])[0]
    print(f"{site}(pressure={p.tolist()}, limits={lim}) -> {obs} {cls or ''}; allowed by the specification: {a['allowed']}")
    return 0 if a["ok"] else 1
