"""C16 - classical mesopore size distributions (pyGAPS-DH, BJH, Dollimore-Heal) and the Kelvin models.

The clauses of the property are TLA+ definitions in spec/Meso.tla; spec/MesoOracle evaluates them.

1. Exact tier: TLC enumerates every grid of 3..6 pressures over tenths x every pattern of volume
   increments (plateaus included) and computes, in exact rationals, the widths 2 (r_K + t) and - for the
   zero-thickness model - the pore volumes (successive changes), the distribution and the cumulative
   curve.  Thickness and Kelvin models are the specification's rational tables passed to the library as
   callables.  Every row is executed on psd_pygapsdh (slit / cylinder / sphere), psd_bjh and
   psd_dollimore_heal and compared in float64 with those rationals; per row, one or two of the executed
   calls (rotating over the configurations) are also judged clause by clause by TLC (DecFloat).
2. Observation tier: built-in thickness and Kelvin models, grids of 10..60 points, psd_mesoporous and
   the raw functions, limits on and off; TLC judges widths (against the Kelvin equation evaluated in the
   specification from ln p), monotonicity, conservation, density, cumulative and single-step clauses.
3. Kelvin radii for the three menisci (+ KJS), the meniscus table, limits of psd_mesoporous
   (spec/SelectionOracle).
"""
import itertools
import math
import random
from fractions import Fraction

from ..common import Run, exc_class, quiet_pygaps
from .. import tlc
from ..encode import dec_enc
from ..linmeso_common import NONE, AUTO, frac, renc, ExactModel, stored_adsorbate, point_isotherm

PID = "C16"
TOLK = 5              # in-spec DecFloat judgement 1e-5
TOL_EXACT = 1e-12     # float64 against the specification's rationals ("exactly the successive changes")
TOL_W = 1e-9

CONFIGS = [("pygaps-DH", "slit"), ("pygaps-DH", "cylinder"), ("pygaps-DH", "sphere"), ("BJH", "cylinder"), ("DH", "cylinder")]
MENISCI = ["cylindrical", "hemispherical", "hemicylindrical"]


def raw_fn(method):
    from pygaps.characterisation import psd_meso
    return {"pygaps-DH": psd_meso.psd_pygapsdh, "BJH": psd_meso.psd_bjh, "DH": psd_meso.psd_dollimore_heal}[method]


def denc(seq):
    return [dec_enc(float(x)) for x in seq]


def finite(*arrs):
    import numpy
    return all(numpy.all(numpy.isfinite(numpy.asarray(a, dtype=float))) for a in arrs)


def psd_record(V, t, rk, res, zero, step=0, kmode="table", lnp=None, ad=None, men="", branch="", pore="", cum=None):
    return {"k": "psd", "V": denc(V), "t": denc(t), "rk": denc(rk) if rk is not None else [], "kmode": kmode,
            "lnp": denc(lnp) if lnp is not None else [], "ad": ad or {"gamma": [0, 0], "mm": [0, 0], "rho": [0, 0], "temp": [0, 0]},
            "men": men, "branch": branch, "pore": pore,
            "widths": denc(res["pore_widths"]), "volumes": denc(res["pore_volumes"]), "dist": denc(res["pore_distribution"]),
            "cum": denc(cum) if cum is not None else [], "zero": bool(zero), "step": int(step), "tolk": TOLK}


def sig_of(cfg):
    """Coarse configuration class of a violation signature (site and clause are added by the caller)."""
    if "method" not in cfg:
        return {k: v for k, v in cfg.items() if k != "adsorbate"}
    out = {k: cfg[k] for k in ("method", "pore_geometry", "kelvin") if k in cfg}
    if "thickness" in cfg:
        out["thickness"] = "zero" if cfg["thickness"] in ("zero", "zero thickness") else "non-zero"
    return out


class Judge:
    def __init__(self, run):
        self.run = run
        self.recs = []
        self.meta = []

    def add(self, rec, site, cfg, detail):
        self.recs.append(rec)
        self.meta.append((site, cfg, detail))

    def finish(self):
        if not self.recs:
            return
        answers = tlc.oracle("MesoOracle", self.recs, timeout=900, chunk=15000)
        for r, (site, cfg, det), a in zip(self.recs, self.meta, answers):
            if a["ok"]:
                continue
            for clause in sorted(a["bad"]):
                self.run.violation(dict(sig_of(cfg), site=site, clause=clause), {"config": cfg, "record": r, "detail": det})
        self.run.add("traces_validated_against_impl", len(self.recs))
        self.recs, self.meta = [], []


def _t(label, t0=[None]):
    import os
    import time
    if os.environ.get("VERIF_DEBUG"):
        now = time.time()
        print(f"  [t] {label}: {now - (t0[0] or now):.1f}s")
        t0[0] = now


def main(tier, seed):
    import numpy
    quiet_pygaps()
    numpy.seterr(all="ignore")
    run = Run(PID, tier, seed, "exploration")
    rng = random.Random(seed)
    thorough = tier == "thorough"
    judge = Judge(run)
    _t("start")

    # ---- the specification's tables
    sp = tlc.oracle("MesoOracle", [{"k": "space"}] + [{"k": "rows", "n": n} for n in (3, 4, 5, 6)])
    tabs = sp[0]["expect"]
    P10 = [Fraction(k, 10) for k in range(1, 10)]
    rk_model = ExactModel(zip(P10, (frac(x) for x in tabs["rk"])))
    tk_model = {"zero": ExactModel(zip(P10, (frac(x) for x in tabs["zero"]))), "table": ExactModel(zip(P10, (frac(x) for x in tabs["tk"])))}
    rows = []
    for a in sp[1:]:
        rows += sorted((tuple(g), tuple(s)) for g, s in a["expect"])
    n_all = len(rows)
    if not thorough:
        rows = [r for i, r in enumerate(rows) if (i + seed) % 12 == 0]
    _t("space")

    # ---- 1. exact tier
    exact_tier(run, judge, rng, rows, rk_model, tk_model, thorough)
    _t("exact replay")
    judge.finish()
    _t("exact judge")

    # ---- 2./3. observation tier, Kelvin models, limits
    observation_tier(run, judge, rng, thorough, seed)
    _t("observation replay")
    judge.finish()
    _t("observation judge")
    limits_tier(run, rng, thorough, rk_model, tk_model)
    _t("limits")

    run.set(exhaustive=bool(thorough), exact_rows_total=n_all, exact_rows_run=len(rows),
            rule="exact tier: every grid of 3..6 of the pressures 0.1..0.9 x every pattern of volume increments in {0, 0.1, 0.2}, first volume 0.1 / -0.15 / 0 in turn (TLC-enumerated; "
                 + ("all" if thorough else "a seeded 1/12") + f" of {n_all} rows) x 5 method/geometry configurations x {{zero, table}} thickness on the raw functions, "
                 "psd_mesoporous on a sample with limits on/off; observation tier: grids of 10..60 points x volume shapes (smooth, plateaus, negative first volumes, single step) x methods x pore "
                 "geometries x meniscus geometries x built-in thickness models x adsorbate property sets (three of them at one common temperature, called in turn) x limits "
                 "x stored representation (K / degC / degC + relative %); Kelvin radii for three menisci and KJS; "
                 "non-trivial = total volume change > 0; distinct = distinct (entry point, configuration, grid, volumes)")
    run.assume("math.log supplies ln p to the Kelvin clause; the built-in thickness curves are inputs (their values are observed, not judged)")
    run.assume("an entry of the result may carry the width of either end of its pressure interval; a point exactly on a limit may or may not be used")
    run.assume("geometry factors of the Kelvin equation: cylindrical 2, hemispherical 1, hemicylindrical 1/2 (DESIGN.md C16)")
    return run.finish()


# ------------------------------------------------------------------------------------------------


def cmp_seq(run, site, cfg, clause, obs, exp, tol, scale, detail):
    import numpy
    obs = numpy.asarray(obs, dtype=float)
    if len(obs) != len(exp):
        run.violation(dict(sig_of(cfg), site=site, clause=clause, wrong="wrong number of entries"), detail)
        return
    for o, e in zip(obs, exp):
        e = float(e)
        if not (abs(o - e) <= tol * (max(abs(o), abs(e)) + scale)):
            run.violation(dict(sig_of(cfg), site=site, clause=clause, wrong="differs from the exact value"),
                          dict(detail, observed=obs.tolist(), expected=[float(x) for x in exp]))
            return


def exact_tier(run, judge, rng, rows, rk_model, tk_model, thorough):
    import numpy
    from pygaps.characterisation.psd_meso import psd_mesoporous
    # first volume of the branch: positive, zero, negative (an over-corrected blank: "non-decreasing", not "non-negative")
    V0S = [Fraction(1, 10), Fraction(-3, 20), Fraction(0)]
    thorough_all = not thorough      # quick: both thickness models of a row are TLC-judged; thorough: one of the two, alternating
    queries = []
    for ri, (g, incs) in enumerate(rows):
        for model in ("zero", "table"):
            queries.append({"k": "exact", "g": list(g), "incs": list(incs), "v0": renc(V0S[ri % 3]), "model": model})
    answers = tlc.oracle("MesoOracle", queries, timeout=900, chunk=20000)
    stored_adsorbate("verif_ads_b", cross_sectional_area=Fraction(1, 5), molar_mass=Fraction(30), liquid_density=Fraction(4, 5), surface_tension=Fraction(9))
    n_iso = 0
    for i, (q, a) in enumerate(zip(queries, answers)):
        ex = a["expect"]
        g, model = q["g"], q["model"]
        p = numpy.array([k / 10 for k in g])
        V = numpy.array([float(frac(x)) for x in ex["V"]])
        total = float(frac(ex["total"]))
        W = [frac(x) for x in ex["widths"]]
        tm, km = tk_model[model], rk_model
        t, rk = tm(p), km(p)
        pick = (i // 2) % len(CONFIGS)
        for ci, (method, geom) in enumerate(CONFIGS):
            site = raw_fn(method).__name__
            cfg = {"method": method, "pore_geometry": geom, "thickness": model, "kelvin": "table", "tier": "exact"}
            det = {"grid": g, "incs": q["incs"], "v0": q["v0"]}
            try:
                res = raw_fn(method)(V, p, geom, tm, km)
            except Exception as e:  # noqa: BLE001
                run.violation(dict(sig_of(cfg), site=site, clause="returns", wrong="exception:" + exc_class(e)), dict(det, message=str(e)[:200]))
                continue
            run.count((site, geom, model, tuple(g), tuple(q["incs"])), nontrivial=total > 0)
            # float64 against the exact rationals of the specification
            w = numpy.asarray(res["pore_widths"], dtype=float)
            lower = all(abs(o - float(e)) <= TOL_W * float(e) for o, e in zip(w, W[:-1])) and len(w) == len(W) - 1
            upper = all(abs(o - float(e)) <= TOL_W * float(e) for o, e in zip(w, W[1:])) and len(w) == len(W) - 1
            if not (lower or upper):
                run.violation(dict(sig_of(cfg), site=site, clause="widths", wrong="differs from the exact value"), dict(det, observed=w.tolist(), expected=[float(x) for x in W]))
            if model == "zero":
                cmp_seq(run, site, cfg, "zero_exact", res["pore_volumes"], [frac(x) for x in ex["volumes"]], TOL_EXACT, total, det)
                cmp_seq(run, site, cfg, "density", res["pore_distribution"], [frac(x) for x in ex["dist"]], TOL_W, total, det)
                if not abs(float(numpy.sum(res["pore_volumes"])) - total) <= TOL_EXACT * (2 * total):
                    run.violation(dict(sig_of(cfg), site=site, clause="zero_exact", wrong="volumes do not sum to the total change"), det)
            if ci == pick and (thorough_all or (i // 2 + i) % 2 == 0) and finite(res["pore_widths"], res["pore_volumes"], res["pore_distribution"]):
                judge.add(psd_record(V, t, rk, res, model == "zero"), site, cfg, det)
        # psd_mesoporous on a sample of rows (isotherm in liquid volume, no unit conversion involved)
        if i % (8 if thorough else 3) == 0:
            method, geom = CONFIGS[(i // 3) % len(CONFIGS)]
            cfg = {"method": method, "pore_geometry": geom, "thickness": model, "kelvin": "table", "tier": "exact"}
            iso = point_isotherm(p, V, adsorbate="verif_ads_b", temperature=100.0, loading_basis="volume_liquid", loading_unit="cm3")
            n_iso += 1
            try:
                res = psd_mesoporous(iso, psd_model=method, pore_geometry=geom, branch="ads", thickness_model=tm, kelvin_model=km, p_limits=(None, None))
            except Exception as e:  # noqa: BLE001
                if not (exc_class(e) == "CalculationError"):
                    run.violation(dict(sig_of(cfg), site="psd_mesoporous", clause="returns", wrong="exception:" + exc_class(e)), {"grid": g, "message": str(e)[:200]})
                continue
            run.count(("psd_mesoporous", method, geom, model, tuple(g), tuple(q["incs"])), nontrivial=total > 0)
            det = {"grid": g, "incs": q["incs"], "v0": q["v0"]}
            if model == "zero":
                cmp_seq(run, "psd_mesoporous", cfg, "zero_exact", res["pore_volumes"], [frac(x) for x in ex["volumes"]], TOL_EXACT, total, det)
                cmp_seq(run, "psd_mesoporous", cfg, "cumulative", res["pore_volume_cumulative"], [frac(x) for x in ex["cum"]], TOL_EXACT, float(numpy.abs(V).max()) + total, det)
            if tuple(res["limits"]) != (0, len(g) - 1):
                run.violation(dict(sig_of(cfg), site="psd_mesoporous", clause="limits", wrong="limits differ from the whole branch"), dict(det, limits=[int(x) for x in res["limits"]]))
            if finite(res["pore_widths"], res["pore_volumes"], res["pore_distribution"], res["pore_volume_cumulative"]):
                judge.add(psd_record(V, t, rk, res, model == "zero", cum=res["pore_volume_cumulative"]), "psd_mesoporous", cfg, det)
    run.sample({"tier": "exact", "query": queries[len(queries) // 2], "expected": answers[len(queries) // 2]["expect"]})
    run.add("psd_mesoporous_exact_calls", n_iso)


# ------------------------------------------------------------------------------------------------


def adsorbate_sets():
    import pygaps
    n2 = pygaps.Adsorbate.find("N2")
    T = 77.355
    sets = [("N2", T, dict(gamma=float(n2.surface_tension(T)), mm=float(n2.molar_mass()), rho=float(n2.liquid_density(T)), temp=T))]
    stored_adsorbate("verif_ads_b", cross_sectional_area=Fraction(1, 5), molar_mass=Fraction(30), liquid_density=Fraction(4, 5), surface_tension=Fraction(9))
    sets.append(("verif_ads_b", 100.0, dict(gamma=9.0, mm=30.0, rho=0.8, temp=100.0)))
    # two further property sets at the SAME temperature as verif_ads_b: anything prepared per (model, meniscus,
    # temperature) and reused across adsorbates shows up as a wrong Kelvin constant
    stored_adsorbate("verif_ads_c", cross_sectional_area=Fraction(1, 4), molar_mass=Fraction(9987, 250), liquid_density=Fraction(7, 5), surface_tension=Fraction(25, 2))
    sets.append(("verif_ads_c", 100.0, dict(gamma=12.5, mm=39.948, rho=1.4, temp=100.0)))
    stored_adsorbate("verif_ads_d", cross_sectional_area=Fraction(1, 8), molar_mass=Fraction(18), liquid_density=Fraction(1), surface_tension=Fraction(20))
    sets.append(("verif_ads_d", 100.0, dict(gamma=20.0, mm=18.0, rho=1.0, temp=100.0)))
    return sets


def ad_enc(ad):
    return {k: dec_enc(v) for k, v in ad.items()}


def volume_shapes(p, rng):
    """Non-decreasing adsorbed volumes on the grid p: smooth, with plateaus, single condensation steps."""
    import numpy
    n = len(p)
    shapes = [("smooth", 0.02 + 0.3 * p / (1.15 - p), 0)]
    inc = numpy.where(numpy.arange(n - 1) % 3 == 1, 0.0, 0.01 + 0.02 * numpy.arange(n - 1) / n)
    shapes.append(("plateaus", numpy.concatenate([[0.05], 0.05 + numpy.cumsum(inc)]), 0))
    shapes.append(("negative start", -0.08 + 0.3 * p / (1.15 - p), 0))        # the first volumes are below zero (over-corrected blank)
    if p[0] < 0.01:
        # the grid that spans 1e-4 .. 0.999: condensation steps in its upper part only (below, widths are under a
        # nanometre and the layer is thicker than the Kelvin radius - outside what a mesopore method resolves)
        steps = [n - 5, n - 3, n - 1]
    else:
        steps = sorted(set([max(1, n // 4), n // 2, max(1, (3 * n) // 4), n - 1]))
    for s in steps:
        v = numpy.where(numpy.arange(n) < s, 0.1, 0.45)
        shapes.append(("single step", v, s))          # step between points s and s+1 (1-based)
    return shapes


def observation_tier(run, judge, rng, thorough, seed):
    import numpy
    from pygaps.characterisation.psd_meso import psd_mesoporous
    from pygaps.characterisation.models_kelvin import kelvin_radius, kelvin_radius_kjs, get_meniscus_geometry, get_kelvin_model
    from pygaps.characterisation.models_thickness import get_thickness_model

    sets = adsorbate_sets()
    grids = [numpy.linspace(0.05, 0.95, 10), numpy.linspace(0.12, 0.97, 30), numpy.linspace(0.02, 0.985, 60),
             numpy.array([0.1 + 0.85 * (k / 24) ** 2 for k in range(1, 25)]),
             # the whole open interval: very low pressures and the approach to saturation (beyond the default upper limit 0.99)
             numpy.array([1e-4, 1e-3, 0.01, 0.05, 0.1, 0.3, 0.5, 0.7, 0.9, 0.97, 0.99, 0.995, 0.998, 0.999]),
             # finely spaced points: width increments of a few 1e-3 nm
             numpy.linspace(0.10, 0.14, 25)]

    # ---- Kelvin radii
    for name, T, ad in sets:
        for p in grids:
            kw = dict(temperature=T, liquid_density=ad["rho"], adsorbate_molar_mass=ad["mm"], adsorbate_surface_tension=ad["gamma"])
            lnp = [math.log(x) for x in p]
            try:
                r = {m: kelvin_radius(p, m, **kw) for m in MENISCI}
                kjs = kelvin_radius_kjs(p, "cylindrical", **kw)
            except Exception as e:  # noqa: BLE001
                run.violation({"site": "kelvin_radius", "clause": "returns", "wrong": "exception:" + exc_class(e)}, {"adsorbate": name, "message": str(e)[:200]})
                continue
            run.count(("kelvin", name, len(p)), n=4)
            judge.add({"k": "kelvin", "ad": ad_enc(ad), "lnp": denc(lnp), "r": {m: denc(r[m]) for m in MENISCI}, "kjs": denc(kjs), "tolk": TOLK},
                      "kelvin_radius", {"adsorbate": name}, {"points": len(p)})
            for m in ("hemispherical", "hemicylindrical"):
                try:
                    kelvin_radius_kjs(p, m, **kw)
                    run.violation({"site": "kelvin_radius_kjs", "clause": "kelvin_kjs", "wrong": "accepts a non-cylindrical meniscus", "meniscus": m}, None)
                except Exception as e:  # noqa: BLE001
                    if exc_class(e) != "ParameterError":
                        run.violation({"site": "kelvin_radius_kjs", "clause": "kelvin_kjs", "wrong": "exception:" + exc_class(e), "meniscus": m}, None)
    run.sample({"tier": "kelvin", "adsorbate": sets[0][2], "pressures": grids[0].tolist()})
    # ---- meniscus table
    for branch in ("ads", "des"):
        for pore in ("slit", "cylinder", "halfopen-cylinder", "sphere"):
            try:
                obs = get_meniscus_geometry(branch, pore)
            except Exception as e:  # noqa: BLE001
                obs = "exception:" + exc_class(e)
            run.count(("meniscus", branch, pore))
            judge.add({"k": "meniscus", "branch": branch, "pore": pore, "obs": obs}, "get_meniscus_geometry", {"branch": branch, "pore_geometry": pore}, {"observed": obs})

    # ---- size distributions with the built-in models
    thick = ["Harkins/Jura", "Halsey", "zero thickness", "SiO2 Jaroniec/Kruk/Olivier", "carbon black Kruk/Jaroniec/Gadkaree"]
    scen = []
    for (name, T, ad), gi, tname, (method, geom) in itertools.product(sets, range(len(grids)), thick, CONFIGS):
        for branch in ("ads", "des"):
            for men in ("",) + tuple(MENISCI):
                scen.append((name, T, ad, gi, tname, method, geom, branch, men))
    rng.shuffle(scen)
    scen = scen[: len(scen) // 2] if thorough else scen[: len(scen) // 14]
    # always run, for every seed: the two special grids (whole interval; fine spacing) x every method / geometry x
    # {zero, Harkins/Jura} thickness, with the smooth, plateau and one single-step shape each
    always = {(sets[0][0], gi, tname, method, geom, "ads", "") for gi in (len(grids) - 2, len(grids) - 1)
              for tname in ("zero thickness", "Harkins/Jura") for method, geom in CONFIGS}
    scen = [x for x in scen if (x[0], x[3], x[4], x[5], x[6], x[7], x[8]) not in always]
    scen += [(sets[0][0], sets[0][1], sets[0][2], gi, tname, method, geom, "ads", "") for (_, gi, tname, method, geom, _, _) in sorted(always)]
    n_not_judged = 0
    nscen = 0
    for name, T, ad, gi, tname, method, geom, branch, men in scen:
        p = grids[gi]
        tfun = get_thickness_model(tname)
        t = numpy.asarray(tfun(p), dtype=float)
        lnp = [math.log(x) for x in p]
        shapes = volume_shapes(p, rng)
        forced = (name, gi, tname, method, geom, branch, men) in always
        shape = shapes[rng.randrange(len(shapes))] if not (thorough or forced) else None
        for sname, V, step in ([shape] if shape else shapes[:3] + [shapes[3 + rng.randrange(len(shapes) - 3)]]):
            zero = tname == "zero thickness"
            cfg = {"method": method, "pore_geometry": geom, "thickness": tname, "kelvin": "Kelvin", "meniscus": men or "default", "branch": branch,
                   "tier": "observation", "shape": sname}
            det = {"adsorbate": name, "points": len(p), "step": step}
            # (a) psd_mesoporous: the isotherm holds the branch in ascending pressure; a desorption branch is stored descending
            use_limits = rng.random() < 0.5
            lim = (float(p[2] + p[3]) / 2, float(p[-3] + p[-2]) / 2) if use_limits else (None, None)
            lo_i, hi_i = (3, len(p) - 3) if use_limits else (0, len(p) - 1)
            if step and not (lo_i + 1 <= step <= hi_i):      # keep the step inside the window
                lim, lo_i, hi_i = (None, None), 0, len(p) - 1
            # the same physical isotherm in three stored representations (K / degC / degC and relative %)
            nscen += 1
            store = [dict(), dict(temperature_unit="°C"), dict(temperature_unit="°C", pressure_mode="relative%")][nscen % 3]
            cfg["stored"] = "K, relative" if not store else ("°C" + (", relative%" if "pressure_mode" in store else ", relative"))
            if branch == "ads":
                iso = point_isotherm(p, V, adsorbate=name, temperature=T, loading_basis="volume_liquid", loading_unit="cm3", **store)
            else:
                # a two-point adsorption ramp above the grid, then the desorption branch under test coming down
                pp = numpy.concatenate([[p[0] * 0.5, (1 + p[-1]) / 2], p[::-1]])
                VV = numpy.concatenate([[V[0], V[-1]], V[::-1]])
                iso = point_isotherm(pp, VV, adsorbate=name, temperature=T, loading_basis="volume_liquid", loading_unit="cm3", **store)
            try:
                res = psd_mesoporous(iso, psd_model=method, pore_geometry=geom, meniscus_geometry=men or None, branch=branch,
                                     thickness_model=tname, kelvin_model="Kelvin", p_limits=lim)
            except Exception as e:  # noqa: BLE001
                run.violation(dict(sig_of(cfg), site="psd_mesoporous", clause="returns", wrong="exception:" + exc_class(e)), dict(det, message=str(e)[:200]))
                continue
            sl = slice(lo_i, hi_i + 1)
            if tuple(int(x) for x in res["limits"]) != (lo_i, hi_i):
                run.violation(dict(sig_of(cfg), site="psd_mesoporous", clause="limits", wrong="limits are not the points inside the pressure limits"),
                              dict(det, limits=[int(x) for x in res["limits"]], expected=[lo_i, hi_i]))
                continue
            run.count(("psd_mesoporous", name, gi, tname, method, geom, branch, men, sname, step, use_limits))
            if not finite(res["pore_widths"], res["pore_volumes"], res["pore_distribution"], res["pore_volume_cumulative"]):
                n_not_judged += 1
                run.violation(dict(sig_of(cfg), site="psd_mesoporous", clause="returns", wrong="non-finite widths / volumes / distribution"), det)
                continue
            judge.add(psd_record(V[sl], t[sl], None, res, zero, step=(step - lo_i if step else 0), kmode="eq", lnp=lnp[sl], ad=ad_enc(ad), men=men,
                                 branch=branch, pore=geom, cum=res["pore_volume_cumulative"]), "psd_mesoporous", cfg, det)
            # (b) the raw function with the library's Kelvin model for the meniscus the specification expects
            m_eff = men or {"slit": "hemicylindrical", "cylinder": ("cylindrical" if branch == "ads" else "hemispherical"), "sphere": "hemispherical"}[geom]
            kfun = get_kelvin_model("Kelvin", meniscus_geometry=m_eff, temperature=T, liquid_density=ad["rho"], adsorbate_molar_mass=ad["mm"], adsorbate_surface_tension=ad["gamma"])
            site = raw_fn(method).__name__
            try:
                res = raw_fn(method)(V, p, geom, tfun, kfun)
            except Exception as e:  # noqa: BLE001
                run.violation(dict(sig_of(cfg), site=site, clause="returns", wrong="exception:" + exc_class(e)), dict(det, message=str(e)[:200]))
                continue
            run.count((site, name, gi, tname, method, geom, branch, men, sname, step))
            if finite(res["pore_widths"], res["pore_volumes"], res["pore_distribution"]):
                judge.add(psd_record(V, t, None, res, zero, step=step, kmode="eq", lnp=lnp, ad=ad_enc(ad), men=m_eff, branch=branch, pore=geom), site, cfg, det)
            else:
                n_not_judged += 1
                run.violation(dict(sig_of(cfg), site=site, clause="returns", wrong="non-finite widths / volumes / distribution"), det)
    # call histories: the same model / meniscus / temperature for alternating adsorbates within one process;
    # every call is judged like a first call (the Kelvin clause uses the adsorbate's own gamma M / rho)
    same_t = [x for x in sets if x[1] == 100.0]
    p = grids[0]
    lnp = [math.log(x) for x in p]
    V = volume_shapes(p, rng)[0][1]
    for kname, men_list in (("Kelvin", MENISCI), ("Kelvin-KJS", ["cylindrical"])):
        for men in men_list:
            for rnd in range(2):
                for name, T, ad in same_t:
                    for tname in ("zero thickness", "Harkins/Jura"):
                        cfg = {"method": "pygaps-DH", "pore_geometry": "cylinder", "thickness": tname, "kelvin": kname, "meniscus": men, "branch": "ads",
                               "tier": "history", "stored": "K, relative"}
                        t = numpy.asarray(get_thickness_model(tname)(p), dtype=float)
                        iso = point_isotherm(p, V, adsorbate=name, temperature=T, loading_basis="volume_liquid", loading_unit="cm3")
                        try:
                            res = psd_mesoporous(iso, psd_model="pygaps-DH", pore_geometry="cylinder", meniscus_geometry=men, branch="ads",
                                                 thickness_model=tname, kelvin_model=kname, p_limits=(None, None))
                        except Exception as e:  # noqa: BLE001
                            run.violation(dict(sig_of(cfg), site="psd_mesoporous", clause="returns", wrong="exception:" + exc_class(e)), {"adsorbate": name, "message": str(e)[:200]})
                            continue
                        run.count(("history", kname, men, rnd, name, tname))
                        judge.add(psd_record(V, t, None, res, tname == "zero thickness", kmode=("eq" if kname == "Kelvin" else "kjs"), lnp=lnp, ad=ad_enc(ad), men=men,
                                             branch="ads", pore="cylinder", cum=res["pore_volume_cumulative"]), "psd_mesoporous", cfg,
                                  {"adsorbate": name, "history": "call %d of the adsorbates %s in turn" % (rnd + 1, [x[0] for x in same_t])})
    # Kelvin-KJS through psd_mesoporous (cylindrical meniscus: adsorption branch of a cylinder)
    for (name, T, ad), gi, tname in itertools.product(sets, range(len(grids)), ("Harkins/Jura", "zero thickness")):
        p = grids[gi]
        t = numpy.asarray(get_thickness_model(tname)(p), dtype=float)
        for sname, V, step in volume_shapes(p, rng)[:4]:
            cfg = {"method": "pygaps-DH", "pore_geometry": "cylinder", "thickness": tname, "kelvin": "Kelvin-KJS", "meniscus": "default", "branch": "ads",
                   "tier": "observation", "shape": sname}
            iso = point_isotherm(p, V, adsorbate=name, temperature=T, loading_basis="volume_liquid", loading_unit="cm3")
            try:
                res = psd_mesoporous(iso, psd_model="pygaps-DH", pore_geometry="cylinder", branch="ads", thickness_model=tname, kelvin_model="Kelvin-KJS", p_limits=(None, None))
            except Exception as e:  # noqa: BLE001
                run.violation(dict(sig_of(cfg), site="psd_mesoporous", clause="returns", wrong="exception:" + exc_class(e)), {"adsorbate": name, "message": str(e)[:200]})
                continue
            run.count(("psd_mesoporous-kjs", name, gi, tname, sname, step))
            if finite(res["pore_widths"], res["pore_volumes"], res["pore_distribution"], res["pore_volume_cumulative"]):
                judge.add(psd_record(V, t, None, res, tname == "zero thickness", step=step, kmode="kjs", lnp=[math.log(x) for x in p], ad=ad_enc(ad),
                                     men="cylindrical", branch="ads", pore="cylinder", cum=res["pore_volume_cumulative"]), "psd_mesoporous", cfg, {"adsorbate": name})
    run.add("observation_non_finite_outputs", n_not_judged)
    if judge.recs:
        r = judge.recs[-1]
        run.sample({"tier": "observation", "config": judge.meta[-1][1], "V": r["V"][:5], "widths": r["widths"][:5], "volumes": r["volumes"][:5]})


# ------------------------------------------------------------------------------------------------


def limits_tier(run, rng, thorough, rk_model, tk_model):
    """'any pressure limits': the reported limits are the points inside the limits and the cumulative curve ends at
    the volume adsorbed at the highest pressure used (spec/SelectionOracle, method "psd")."""
    import numpy
    from pygaps.characterisation.psd_meso import psd_mesoporous
    sp = tlc.oracle("SelectionOracle", [{"k": "space", "maxk": 7, "maxl": 16, "maxn": 3}])[0]["impl"]
    grids = sorted(tuple(g) for g in sp["grids"] if len(g) >= 3)
    los, his = sorted(sp["lo"]), sorted(sp["hi"])
    recs, meta = [], []
    pairs = [(lo, hi) for lo in los for hi in his] + [(AUTO, AUTO)]
    # tables are defined on tenths 0.1..0.9; the selection grids use 0.1..0.7
    for g in grids:
        p = numpy.array([k / 20 for k in g])
        V = (-0.12 if len(g) % 2 else 0.1) + numpy.cumsum(numpy.arange(1, len(g) + 1) * 0.05)      # odd sizes start below zero
        iso = point_isotherm(p, V, adsorbate="verif_ads_b", temperature=100.0, loading_basis="volume_liquid", loading_unit="cm3")
        for lo, hi in (pairs if thorough else rng.sample(pairs, 40) + [(AUTO, AUTO)]):
            lim = None if lo == AUTO else (None if lo == NONE else lo / 20, None if hi == NONE else hi / 20)
            cfg = {"method": "pygaps-DH", "pore_geometry": "cylinder", "thickness": "zero", "kelvin": "table", "tier": "limits"}
            try:
                res = psd_mesoporous(iso, psd_model="pygaps-DH", pore_geometry="cylinder", branch="ads", thickness_model=tk_model["zero"], kelvin_model=rk_model, p_limits=lim)
                obs = ["win", int(res["limits"][0]), int(res["limits"][1])]
            except Exception as e:  # noqa: BLE001
                if exc_class(e) == "CalculationError":
                    obs = ["refuse", 0, 0]
                else:
                    run.violation(dict(sig_of(cfg), site="psd_mesoporous", clause="limits", wrong="exception:" + exc_class(e)), {"grid": list(g), "limits": [lo, hi], "message": str(e)[:200]})
                    continue
            run.count(("psd-limits", g, lo, hi))
            recs.append({"k": "win", "m": "psd", "g": list(g), "lo": lo, "hi": hi, "r": [], "obs": obs})
            meta.append((cfg, res if obs[0] == "win" else None, V))
    answers = tlc.oracle("SelectionOracle", recs, timeout=600, chunk=30000)
    for r, (cfg, res, V), a in zip(recs, meta, answers):
        if not a["ok"]:
            run.violation(dict(sig_of(cfg), site="psd_mesoporous", clause="limits", wrong="limits are not the points inside the pressure limits"),
                          {"record": r, "allowed": a["allowed"]})
            continue
        if res is not None:
            mx = r["obs"][2]
            cum = numpy.asarray(res["pore_volume_cumulative"], dtype=float)
            if not (len(cum) and abs(cum[-1] - V[mx]) <= 1e-12 * abs(V[mx])):
                run.violation(dict(sig_of(cfg), site="psd_mesoporous", clause="cumulative", wrong="does not end at the volume adsorbed at the highest pressure used"),
                              {"record": r, "cumulative": cum.tolist(), "V": V.tolist()})
    run.add("traces_validated_against_impl", len(recs))


def replay(path):
    """./check C16 --replay replays/C16-....json : let the specification judge the recorded call again
    (the record holds every input and output of the call) and print the failing clauses."""
    import json
    with open(path) as f:
        d = json.load(f)
    print("signature:", json.dumps(d["sig"], sort_keys=True))
    rec = (d.get("detail") or {}).get("record")
    if not rec or rec.get("k") not in ("psd", "kelvin", "meniscus"):
        print(json.dumps(d.get("detail"), indent=1)[:4000])
        print("(recorded case printed; run ./check C16 to re-evaluate it on the current tree)")
        return 0
    a = tlc.oracle("MesoOracle", [rec])[0]
    print("failing clauses of spec/Meso.tla on the recorded call:", sorted(a["bad"]) or "none")
    return 0 if a["ok"] else 1
