"""C15 - characterisation results do not depend on the representation the isotherm is stored in.

A. TLC checks spec/AccessPlanMC exhaustively: every characterisation entry point is transcribed as its
   access plan (accessor calls with the literal unit arguments of the source); over all permanent
   conversions of the sample and of the reference / further isotherm the monomial that reaches the
   numeric core is the same except by the isotherm's own material unit, and the representations where
   the plan violates the property are exactly those of the closed-form class table.
B. Replay (pattern B): for every entry point the fixture is permanently converted to a covering set of
   representations supplied by TLC (spec/AccessPlanOracle: every pressure representation, every
   loading / material basis with the requested unit and two others, both temperature units; all
   units and full-product samples in the thorough tier), exported and re-imported through JSON, and
   has all loadings multiplied by 1/3 and 7.  The analysis is run; the returned numbers and the arrays
   that reached the numeric core are recorded as decimal floats; spec/InvarianceTrace decides, per
   result key, equal / changed by exactly the unit monomial / scaled by the loading factor.
C. Use - convert - use on ONE object (entry points that go through loading_at / pressure_at: alpha_s, isosteric_enthalpy,
   enthalpy_sorption_whittaker): the entry point is run on the fixtures (filling their interpolator caches), the same
   objects are permanently converted (pressure, loading, material, temperature, combined), the entry point is run again;
   the second result is judged against the first by the same clauses, and against what freshly converted copies give
   (nothing may differ, whatever the class of the representation - so a recorded finding cannot mask a stale cache).
D. Fixtures whose pressure cannot be read as p/p0 (supercritical CO2 at 35 degC; an adsorbate without backend and without
   saturation pressure) through every one-isotherm entry point x every absolute pressure unit (+ constructible loading /
   material representations): the OUTCOME CLASS must be invariant as well - refused as stored => refused in every
   representation (InvarianceTrace clause answered_in_this_representation_but_refused_as_stored), returned => equal.
"""
import math
import random
import time

import numpy

from ..common import Run, MachineryError, quiet_pygaps
from .. import tlc
from ..encode import dec_enc
from ..units_common import Atoms
from ..iso_common import labels_of
from ..invar_common import ENTRY, fixture, to_rep, convert_in_place, clone, json_roundtrip, run_entry

PID = "C15"
NAN = [0, 99]

# entry -> fixture tuples (first isotherm = sample; the others = reference / further temperatures)
SCEN = {
    "area_BET": [("MCM-41",), ("NaY",), ("synth-BET",)],
    "area_BET[limits]": [("SiO2",), ("UiO-66(Zr)",)],
    "area_langmuir": [("Takeda 5A",), ("synth-Langmuir",)],
    "area_langmuir[limits]": [("UiO-66(Zr)",), ("NaY",)],
    "t_plot": [("MCM-41",), ("NaY",)],
    "t_plot[Halsey,limits]": [("SiO2",), ("MCM-41",)],
    "alpha_s": [("SiO2", "MCM-41"), ("synth-BET", "MCM-41")],
    "alpha_s[langmuir,limits]": [("SiO2", "MCM-41"), ("SiO2", "synth-Langmuir")],
    "dr_plot": [("Takeda 5A",), ("UiO-66(Zr)",)],
    "dr_plot[limits]": [("UiO-66(Zr)",), ("Takeda 5A",)],
    "da_plot": [("Takeda 5A",), ("UiO-66(Zr)",)],
    "da_plot[search]": [("Takeda 5A",)],
    "psd_mesoporous[pygaps-DH]": [("MCM-41",)],
    "psd_mesoporous[BJH]": [("MCM-41",)],
    "psd_mesoporous[DH]": [("MCM-41",)],
    "psd_microporous[HK]": [("UiO-66(Zr)",), ("Takeda 5A",)],
    "psd_microporous[HK-CY]": [("UiO-66(Zr)",)],
    "psd_microporous[RY]": [("Takeda 5A",), ("UiO-66(Zr)",)],
    "psd_microporous[RY-CY]": [("UiO-66(Zr)",)],
    "psd_dft[core]": [("Takeda 5A",), ("MCM-41",)],
    "initial_henry_slope": [("SiO2",), ("NaY",), ("MCM-41",)],
    "initial_henry_virial": [("MCM-41",), ("SiO2",)],
    "isosteric_enthalpy": [("BAX-298", "BAX-323", "BAX-348")],
    "enthalpy_sorption_whittaker[Toth]": [("synth-Toth-Pa",)],
    "enthalpy_sorption_whittaker[Langmuir]": [("synth-Langmuir-Pa",)],
    "initial_enthalpy_point": [("HKUST-1",), ("Takeda-CO2",)],
    "initial_enthalpy_comp": [("HKUST-1",)],
}
THOROUGH_ONLY = {"psd_dft": [("MCM-41",)]}
# fixtures without a relative pressure: every one-isotherm entry point x every ABSOLUTE pressure unit (+ loading / material
# representations that can be constructed); the outcome class must not depend on the representation either
NOP0_FIXTURES = ("nop0-CO2-35C", "nop0-custom")
NOP0_ENTRIES = ("area_BET", "area_langmuir", "area_langmuir[limits]", "t_plot", "dr_plot", "da_plot", "psd_mesoporous[pygaps-DH]",
                "psd_microporous[HK]", "psd_dft[core]", "initial_henry_slope", "initial_henry_virial")
HISTORY_ANALYSES = ("alpha_s", "isosteric_enthalpy", "enthalpy_sorption_whittaker")
SCALES = ((1, 3), (7, 1))


COARSE = {"result_changed": "results_differ", "own_unit_result_not_changed_by_exactly_the_unit_factor": "results_differ",
          "refused_after_change_of_representation": "refused"}


def enc_arr(a, idx):
    a = numpy.atleast_1d(numpy.asarray(a, dtype=float)).ravel()
    out = []
    for i in idx:
        v = float(a[i])
        out.append(dec_enc(v) if math.isfinite(v) else NAN)
    return out


def lab(s):
    return "/".join(str(s[k]) for k in ("pm", "pu", "lb", "lu", "mb", "mu", "tu"))


def imax_of(enc):
    """1-based position of the largest finite magnitude of an encoded array (0: none); the trace spec verifies it"""
    best, pos = None, 0
    for i, me in enumerate(enc):
        if me == NAN:
            continue
        key = (me[0] != 0, me[1] if me[0] else 0, abs(me[0]))
        if best is None or key > best:
            best, pos = key, i + 1
    return pos


def pick_idx(n, limit):
    if n <= limit:
        return list(range(n))
    return sorted({int(round(k * (n - 1) / (limit - 1))) for k in range(limit)})


def magnitude(iso):
    m = float(numpy.max(numpy.abs(iso.data_raw[iso.loading_key].to_numpy(dtype=float))))
    return "<1e-2" if m < 1e-2 else (">1e4" if m > 1e4 else "1e-2..1e4")


def dbg(msg):
    import os
    import sys
    if os.environ.get("VERIF_DEBUG"):
        print("[c15] " + msg, file=sys.stderr, flush=True)


def parallel_oracle(module, records, chunk, jobs=4):
    """several single-threaded TLC oracle runs side by side (ASSUME evaluation is single-threaded)"""
    from concurrent.futures import ThreadPoolExecutor
    parts = [records[i:i + chunk] for i in range(0, len(records), chunk)]
    with ThreadPoolExecutor(max_workers=jobs) as ex:
        outs = list(ex.map(lambda part: tlc.oracle(module, part, timeout=1500, heap="2g"), parts))
    return [a for out in outs for a in out]


class Variant:
    __slots__ = ("entry", "an", "names", "role", "kind", "to", "variant", "scale", "sS0", "sR0", "sS", "sR", "outcome", "res", "exc", "msg", "base", "mag", "atoms", "stored", "history", "chg", "base_outcome")


def build_isos(v):
    """the fixtures of scenario v, with the isotherm(s) of v.role brought to v.sS / v.sR"""
    isos = []
    for i, n in enumerate(v.names):
        tgt, start, is_changed = (v.sS, v.sS0, v.role in ("S", "A")) if i == 0 else (v.sR, v.sR0, v.role in ("R", "A"))
        f = fixture(n)
        if getattr(v, "history", None) and is_changed:
            f = to_rep(f, dict(labels_of(f), **v.chg))
        elif v.variant == "rep" and is_changed:
            own = labels_of(f)
            chg = {k: tgt[k] for k in tgt if tgt[k] != start[k]}
            f = to_rep(f, dict(own, **chg))
            if v.kind == "product":      # ... and exported / re-imported in the new representation
                f = json_roundtrip(f)
        elif v.variant == "json":
            f = json_roundtrip(f)
        elif v.variant == "scale" and is_changed:
            f = clone(f, scale=v.scale[0] / v.scale[1])
        isos.append(f)
    return isos


def execute(v):
    """run the entry point on the scenario; False when the scenario cannot be constructed (conversion refused).
    History scenarios (v.history = "use-convert-use"): the entry point is first run on the fixtures as stored (which fills
    their interpolator caches), THE SAME objects are then permanently converted, and the entry point is run again;
    v.base becomes the first result.  v.history = "fresh-reference": v.base is what freshly converted copies give."""
    history = getattr(v, "history", None)
    try:
        if history:
            isos = [fixture(n) for n in v.names]
            out, first, msg = run_entry(v.entry, isos)
            if out != "ok":
                return False
            for i, f in enumerate(isos):
                is_changed = v.role in ("S", "A") if i == 0 else v.role in ("R", "A")
                if is_changed:
                    convert_in_place(f, dict(labels_of(f), **v.chg))
            if history == "use-convert-use":
                v.base = first
            else:
                out, fresh, msg = run_entry(v.entry, build_isos(v))
                if out != "ok":      # freshly converted copies are refused as well: nothing to compare the history with
                    return False
                v.base = fresh
        else:
            isos = build_isos(v)
    except MachineryError:
        raise
    except Exception:
        return False
    v.mag = magnitude(isos[0])
    v.stored = {"loading": isos[0].data_raw[isos[0].loading_key].to_numpy(dtype=float).copy(),
                "pressure": isos[0].data_raw[isos[0].pressure_key].to_numpy(dtype=float).copy()}
    v.outcome, v.res, v.msg = run_entry(v.entry, isos)
    return True


def ask_spec(variants, limit):
    """AccessPlanOracle: class and expected monomials per run; InvarianceTrace: the verdict per run"""
    recs = []
    for v in variants:
        keys = sorted(v.base) if v.outcome == "ok" and getattr(v, "base_outcome", "ok") == "ok" else []
        recs.append({"k": "run", "an": v.an, "role": v.role, "sS0": v.sS0, "sR0": v.sR0, "sS": v.sS, "sR": v.sR, "keys": [k for k in keys]})
    answers = parallel_oracle("AccessPlanOracle", recs, 600)
    t_oracle = time.time()
    trecs = []
    for v, ans in zip(variants, answers):
        if not ans["judged"]:
            raise MachineryError(f"scenario outside the specification's state space: {v.sS} {v.sR}")
        if ans["cls"] != ans["table"]:
            raise MachineryError(f"class table of spec/AccessPlan.tla is not exact at {v.an} {v.sS} {v.sR}: {ans['cls']} vs {ans['table']}")
        q = {"an": v.an, "role": v.role, "variant": v.variant, "scale": list(v.scale or (1, 1)), "sS0": v.sS0, "sR0": v.sR0, "sS": v.sS, "sR": v.sR,
             "cls": ans["cls"], "outcome": v.outcome, "base_outcome": getattr(v, "base_outcome", "ok"), "obs": []}
        if v.outcome == "ok" and q["base_outcome"] == "ok":
            for info in ans["keys"]:
                k = info["key"]
                vec = {a: e for a, e in info["vec"]}
                fac = v.atoms.value(vec)
                if fac is None:
                    if v.names[0] in NOP0_FIXTURES:      # a constant this adsorbate cannot supply: the key is not judged
                        continue
                    raise MachineryError(f"cannot evaluate the monomial {vec} for {v.names}")
                if v.variant == "scale":
                    logfac = info["sexp"] * math.log(v.scale[0] / v.scale[1])
                else:
                    logfac = math.log(fac)
                b = numpy.atleast_1d(numpy.asarray(v.base[k], dtype=float)).ravel()
                o = numpy.atleast_1d(numpy.asarray(v.res.get(k, numpy.full(0, numpy.nan)), dtype=float)).ravel()
                if b.shape == o.shape:
                    idx = pick_idx(len(b), limit)
                    # always include the element where the two runs differ most from the expected ratio
                    with numpy.errstate(all="ignore"):
                        f_eff = fac if v.variant != "scale" else (v.scale[0] / v.scale[1]) ** info["sexp"]
                        d = numpy.abs(o - b * f_eff)
                        d[~numpy.isfinite(d)] = numpy.inf if info["kind"] != "log" else 0
                    if len(b) > limit and info["kind"] == "num":
                        idx = sorted(set(idx) | {int(numpy.argmax(d))})
                    eb = enc_arr(b, idx)
                    q["obs"].append({"key": k, "base": eb, "imax": imax_of(eb), "val": enc_arr(o, idx), "fac": dec_enc(fac), "logfac": dec_enc(logfac),
                                     "vec": sorted([a, e] for a, e in vec.items())})
                else:
                    eb = enc_arr(b, range(len(b)))[:limit]
                    q["obs"].append({"key": k, "base": eb, "imax": imax_of(eb), "val": enc_arr(o, range(len(o)))[:limit + 1] if len(o) != len(b) else [],
                                     "fac": dec_enc(fac), "logfac": dec_enc(logfac), "vec": sorted([a, e] for a, e in vec.items())})
        trecs.append(q)
    import os
    if os.environ.get("VERIF_DEBUG_DUMP"):
        import json
        with open(os.environ["VERIF_DEBUG_DUMP"], "w") as f:
            json.dump(trecs, f)
    verdicts = parallel_oracle("InvarianceTrace", trecs, 400)
    return answers, trecs, verdicts, t_oracle


def signature(v, ans, vd):
    """(sig, judged clauses) of one run; sig None when nothing is held against it"""
    cls = ans["cls"]
    clauses = sorted({b["c"] for b in vd["bad"]})
    if any(c.startswith("MACHINERY") for c in clauses):
        raise MachineryError(f"{v.entry}: {clauses}")
    judged = [c for c in clauses if not c.startswith("not_judged")]
    if not judged:
        return None, clauses
    coarse = sorted({COARSE.get(c, c) for c in judged})
    if "results_differ" in coarse and "shape_changed" in coarse:
        coarse.remove("shape_changed")      # (result arrays whose length follows from the differing values, e.g. Whittaker's loading grid)
    sig = {"site": v.an, "plan_class": cls, "observed": "+".join(coarse)}
    if v.outcome == "raised":
        sig["exception"] = v.res
    if getattr(v, "history", None) == "fresh-reference":
        # the same objects, converted after a first use, against freshly converted copies: whatever the class of the
        # representation, a difference is a dependence on the history of the object
        sig.update(plan_class="same_representation", observed="depends_on_history:" + sig["observed"], changed=f"{v.role}:{v.kind}")
        return sig, clauses
    if cls == "ok":     # not a class the access-plan model predicts: say what was changed
        bad_core = [b for b in vd["bad"] if b["key"].startswith("core.")]
        has_core = v.outcome == "ok" and any(k.startswith("core.") for k in v.base)
        sig.update(changed=f"{v.role}:{v.kind}", stored_loading_magnitude=v.mag,
                   core_inputs=("differ" if bad_core else "conform") if has_core else "not observed")
    return sig, clauses


def replay(path):
    """./check C15 --replay replays/C15-....json : rebuild the recorded scenario on the current tree, run the entry point
    on the fixture as stored and on the changed copy, and let the specification judge the pair again."""
    import json
    quiet_pygaps()
    with open(path) as f:
        d = json.load(f)
    print("recorded signature:", json.dumps(d["sig"], sort_keys=True))
    det = d["detail"]
    v = Variant()
    v.entry, v.an, v.names = det["entry"], ENTRY[det["entry"]][0], tuple(det["fixtures"])
    v.role, v.kind, v.variant, v.to = det["role"], det["kind"], det["variant"], det.get("to")
    v.history, v.chg = det.get("history"), det.get("change")
    v.scale = tuple(det["scale"]) if det.get("scale") else None
    v.sS0, v.sR0, v.sS, v.sR = det["start_sample_labels"], det["start_other_labels"], det["sample_labels"], det["other_labels"]
    isos0 = [fixture(n) for n in v.names]
    out, v.base, msg = run_entry(v.entry, isos0)
    v.base_outcome = out
    if out != "ok":
        if v.names[0] not in NOP0_FIXTURES:
            print(f"the entry point no longer runs on the fixture as stored: {v.base}: {msg}")
            return 2
        print(f"as stored the entry point refuses this fixture: {v.base}: {msg[:120]}")
        v.base = {}
    v.atoms = Atoms(isos0[0].adsorbate, isos0[0].temperature, isos0[0].material)
    if not execute(v):
        print("the changed copy can no longer be constructed")
        return 2
    answers, trecs, verdicts, _ = ask_spec([v], 200)
    sig, clauses = signature(v, answers[0], verdicts[0])
    print(f"{v.entry} on {v.names}: sample {lab(v.sS0)} -> {lab(v.sS)}; other {lab(v.sR0)} -> {lab(v.sR)}; variant {v.variant} {v.scale or ''}")
    print(f"outcome: {v.outcome} {v.res if v.outcome == 'raised' else ''}; access-plan class: {answers[0]['cls']}")
    for b in verdicts[0]["bad"][:20]:
        print(f"  {b['key']}: {b['c']} (element {b['i']})")
    print("signature now:", json.dumps(sig, sort_keys=True) if sig else "none - the specification accepts this run")
    return 1 if sig else 0


def main(tier, seed):
    quiet_pygaps()
    run = Run(PID, tier, seed, "model_checking")
    rng = random.Random(seed)
    thorough = tier == "thorough"
    t_start = time.time()

    # ---- A. the access plans as a transition system over permanent conversions
    res = tlc.must_pass("AccessPlanMC", cfg="AccessPlanMCThorough" if thorough else "AccessPlanMC", timeout=900)
    run.set(states=res["distinct"], transitions=res["states_generated"], tlc_depth=res["depth"],
            tlc_invariants=["StaysValid", "ClassExact", "Invariance"])

    # ---- covering classes of stored representations, per analysis, from the specification
    analyses = sorted({ENTRY[e][0] for e in SCEN})
    cover = dict(zip(analyses, tlc.oracle("AccessPlanOracle", [{"k": "cover", "an": a} for a in analyses], timeout=600)))
    per_class = 99 if thorough else 2

    def reps_of(an, which):
        out = []
        for c in sorted(cover[an][which], key=lambda c: repr(c["key"])):
            reps = sorted(tuple(r) for r in c["reps"])
            rng.shuffle(reps)
            out.extend(reps[:per_class])
        return out

    t_mc = time.time()
    dbg(f"model checking + cover done in {t_mc - t_start:.1f}s")
    # ---- B. replay
    scen = dict(SCEN)
    if thorough:
        scen.update(THOROUGH_ONLY)
    variants = []
    nbase = 0
    for entry in sorted(scen):
        an = ENTRY[entry][0]
        tuples = list(scen[entry]) if thorough else [scen[entry][seed % len(scen[entry])]]
        two = len(tuples[0]) > 1
        if entry in NOP0_ENTRIES:
            tuples += [(n,) for n in (NOP0_FIXTURES if thorough or entry.startswith("area_langmuir") else NOP0_FIXTURES[seed % 2:seed % 2 + 1])]
        for names in tuples:
            nop0 = names[0] in NOP0_FIXTURES
            isos0 = [fixture(n) for n in names]
            sS0 = labels_of(isos0[0])
            sR0 = labels_of(isos0[1]) if two else dict(sS0)
            out, base, msg = run_entry(entry, isos0)
            if out != "ok":
                if not nop0:
                    raise MachineryError(f"{entry} on {names} as stored does not run on this tree: {base}: {msg}")
                base = {}
            base_outcome = out
            nbase += 1
            atoms = Atoms(isos0[0].adsorbate, isos0[0].temperature, isos0[0].material)
            changes = []      # (kind, to, fields)
            for p in sorted(tuple(r) for r in cover[an]["P"]):
                if nop0 and p[0] != "absolute":
                    continue        # (the conversion itself is refused: no saturation pressure)
                changes.append(("pressure", p[0], {"pm": p[0], "pu": p[1]}))
            for l in reps_of(an, "L"):
                changes.append(("loading", l[0], {"lb": l[0], "lu": l[1]}))
            for m in reps_of(an, "M"):
                changes.append(("material", m[0], {"mb": m[0], "mu": m[1]}))
            changes.append(("temperature", "degC", {"tu": "degC"}))
            if (thorough or entry in ("area_BET", "alpha_s", "isosteric_enthalpy", "psd_mesoporous[pygaps-DH]", "initial_henry_slope")) and not nop0:
                allp = sorted(tuple(r) for r in cover[an]["P"])
                alll = sorted(tuple(r) for c in cover[an]["L"] for r in c["reps"])
                allm = sorted(tuple(r) for c in cover[an]["M"] for r in c["reps"])
                for _ in range(24 if thorough else 3):
                    p, l, m = rng.choice(allp), rng.choice(alll), rng.choice(allm)
                    changes.append(("product", "mixed", {"pm": p[0], "pu": p[1], "lb": l[0], "lu": l[1], "mb": m[0], "mu": m[1], "tu": rng.choice(("K", "degC"))}))
            if entry == "psd_dft":      # the real kernel fit takes 7-17 s per run: a seeded handful of changes
                rng.shuffle(changes)
                changes = changes[:5]
            roles = ["S"] + (["R", "A"] if two else [])
            plan = []
            for role in roles:
                for kind, to, f in changes:
                    sS = dict(sS0, **f) if role in ("S", "A") else dict(sS0)
                    sR = dict(sR0, **f) if role in ("R", "A") else dict(sR0)
                    if sS == sS0 and sR == sR0:
                        continue
                    plan.append((role, kind, to, "rep", None, sS, sR))
            plan.append(("A" if two else "S", "json", "json", "json", None, dict(sS0), dict(sR0)))
            for sc in (SCALES[:1] if entry == "psd_dft" else SCALES):
                for role in (["S", "R"] if an == "alpha_s" else ["A"] if two else ["S"]):
                    plan.append((role, "scale", f"{sc[0]}/{sc[1]}", "scale", sc, dict(sS0), dict(sR0)))
            # use - convert - use on ONE object, for the entry points that go through loading_at / pressure_at (cached interpolators)
            hist = []
            if an in HISTORY_ANALYSES:
                hc = [c for c in changes if c[0] == "pressure"]
                rng.shuffle(hc)
                pick = hc if thorough else ([c for c in hc if c[1] != "absolute"][:1] + [c for c in hc if c[1] == "absolute"][:2])
                for k in ("loading", "material"):
                    kc = [c for c in changes if c[0] == k]
                    rng.shuffle(kc)
                    pick += kc if thorough else kc[:2]
                pick += [c for c in changes if c[0] in ("temperature", "product")][:(8 if thorough else 3)]
                for role in roles:
                    for kind, to, f in pick:
                        sS = dict(sS0, **f) if role in ("S", "A") else dict(sS0)
                        sR = dict(sR0, **f) if role in ("R", "A") else dict(sR0)
                        if sS == sS0 and sR == sR0:
                            continue
                        hist.append((role, "history:" + kind, to, "rep", None, sS, sR, "use-convert-use", f))
                        hist.append((role, "history-vs-fresh:" + kind, to, "json", None, sS, sR, "fresh-reference", f))
            for role, kind, to, variant, sc, sS, sR, history, chg in [p + (None, None) for p in plan] + hist:
                v = Variant()
                v.entry, v.an, v.names, v.role, v.kind, v.to, v.variant, v.scale = entry, an, names, role, kind, to, variant, sc
                v.sS0, v.sR0, v.sS, v.sR, v.base, v.atoms, v.history, v.chg = sS0, sR0, sS, sR, base, atoms, history, chg
                v.base_outcome = base_outcome
                if history == "fresh-reference":      # both runs are in the target representation: nothing may differ
                    v.sS0, v.sR0 = sS, sR
                if not execute(v):      # the conversion itself was refused (a constant is unavailable): nothing to analyse
                    run.add("variants_not_constructible")
                    continue
                variants.append(v)
            dbg(f"{entry} {names}: {len(plan)} variants, t={time.time() - t_mc:.1f}s")
    run.set(base_runs=nbase)
    t_runs = time.time()
    dbg(f"real runs done: {len(variants)} variants in {t_runs - t_mc:.1f}s")

    # ---- what the specification expects of every run, and its verdict
    limit = 200 if thorough else 16
    answers, trecs, verdicts, t_oracle = ask_spec(variants, limit)
    run.set(wall_breakdown={"tlc_model_checking_and_cover": round(t_mc - t_start, 1), "real_runs": round(t_runs - t_mc, 1),
                            "plan_oracle": round(t_oracle - t_runs, 1), "trace_validation": round(time.time() - t_oracle, 1)})

    # ---- is the transcription still the code?  every array that reached the numeric core must consist of the sample's
    # stored numbers times the monomial the access-plan model computes for that read (float64, 1e-9)
    plan_checked = plan_drift = 0
    for v, ans in zip(variants, answers):
        if v.outcome != "ok":
            continue
        for dl in ans["deliv"]:
            core = v.res.get("core." + dl["slot"])
            if core is None or v.an in ("enthalpy_sorption_whittaker",):
                continue
            f = v.atoms.value({a: e for a, e in dl["vec"]})
            if f is None:
                continue
            col = v.stored[dl["col"]]
            if v.variant == "scale" and dl["col"] == "loading" and v.role in ("S", "A"):
                pass        # (stored numbers are the scaled ones already)
            core = numpy.atleast_1d(numpy.asarray(core, dtype=float)).ravel()
            core = core[numpy.isfinite(core) & (core != 0)]      # (initial_henry_slope prepends the origin)
            plan_checked += 1
            ref = numpy.sort(col[numpy.isfinite(col)] * f)
            pos = numpy.clip(numpy.searchsorted(ref, core), 1, len(ref) - 1)
            near = numpy.minimum(numpy.abs(ref[pos] - core), numpy.abs(ref[pos - 1] - core))
            if len(ref) == 0 or numpy.any(near > 1e-9 * numpy.maximum(numpy.abs(core), 1e-300)):
                plan_drift += 1
                if plan_drift <= 5:
                    run.note(f"MODEL-DRIFT {v.entry} {v.names} sample {lab(v.sS)}: core.{dl['slot']} is not the stored {dl['col']} column times the "
                             f"monomial {dl['vec']} the access-plan transcription (spec/AccessPlan.tla Plan) computes")
    run.set(plan_reads_checked_against_core=plan_checked, plan_reads_off_the_transcription=plan_drift)

    drift = 0
    for v, ans, q, vd in zip(variants, answers, trecs, verdicts):
        nontrivial = v.variant != "json"
        run.count((v.entry, v.names, v.role, v.kind, repr(sorted(v.sS.items())), repr(sorted(v.sR.items())), v.scale), nontrivial=nontrivial)
        cls = ans["cls"]
        sig, clauses = signature(v, ans, vd)
        if sig is None:
            if clauses:
                run.add("not_judged_deliberate_guard")
            elif cls not in ("ok",):
                drift += 1
                if drift <= 5:
                    run.note(f"MODEL-DRIFT {v.entry} {v.names} sample {lab(v.sS)} other {lab(v.sR)}: the access-plan model predicts '{cls}' but the recorded "
                             "results conform within tolerance (divergence too small to observe there, or the code no longer matches the transcription)")
            continue
        first = vd["bad"][0]
        detail = {"entry": v.entry, "fixtures": list(v.names), "role": v.role, "kind": v.kind, "variant": v.variant, "to": v.to, "history": getattr(v, "history", None), "change": getattr(v, "chg", None), "sample_labels": v.sS, "other_labels": v.sR, "start_sample_labels": v.sS0, "start_other_labels": v.sR0,
                  "scale": v.scale, "failing": [{"key": b["key"], "clause": b["c"], "index": b["i"]} for b in vd["bad"][:12]], "message": v.msg}
        if v.outcome == "ok" and first["key"] in v.base:
            ob = next(o for o in q["obs"] if o["key"] == first["key"])
            detail["first_failing_key"] = {"key": first["key"], "base": ob["base"][:6], "variant": ob["val"][:6], "expected_factor": ob["fac"], "monomial": ob["vec"]}
        run.violation(sig, detail)
    run.add("traces_validated_against_impl", len(variants))
    run.set(model_drift=drift)
    for want in (("area_BET", "material"), ("alpha_s", "pressure"), ("isosteric_enthalpy", "scale"), ("psd_mesoporous", "loading")):
        for v, q, vd in zip(variants, trecs, verdicts):
            if (v.an, v.kind) == want and v.outcome == "ok":
                smp = dict(q)
                smp["obs"] = [dict(o, base=o["base"][:4], val=o["val"][:4]) for o in smp["obs"][:3]]
                run.sample({"entry": v.entry, "fixtures": v.names, "record": smp, "verdict": vd})
                break
    run.set(exhaustive=False, entries=len(scen),
            rule="entry points (" + str(len(scen)) + " incl. option variants; 15 analyses) x fixtures (measured N2/77 K, n-butane, CO2 calorimetry isotherms; synthetic BET/Langmuir/Toth) x "
                 "{sample, reference/further isotherm, all} x {every pressure representation; per loading / material basis the requested unit and "
                 + ("every other unit" if thorough else "2 seeded others") + "; degC; full-product samples; JSON round trip; loadings x 1/3, x 7; use - convert - use histories on one object "
                 "(alpha_s, isosteric_enthalpy, Whittaker) judged against the first use and against freshly converted copies}; "
                 "two fixtures without a relative pressure through the one-isotherm entry points x every absolute pressure unit (outcome class invariant); "
                 "per run every result key and every array handed to the numeric core (up to " + str(limit) + " elements per array incl. the worst one); "
                 "non-trivial = representation or scale actually changed; distinct = distinct (entry, fixture, role, target representation / factor)")
    run.assume("adsorbate/material property methods define psat, M, densities (C20); every fixture material is given density 1.737 g/cm3 and molar mass 419.3 g/mol")
    run.assume("psd_dft: only the arrays reaching the kernel fit (and, thorough tier, the fitted loading at 10 %) are judged - the SLSQP solution (ftol 1e-4) "
               "differs by up to 24 % between bit-level perturbations of one input; fractional loading representations are outside the quantifier")
    run.assume("float payload independence sampled over the fixtures, not proved")
    return run.finish()
