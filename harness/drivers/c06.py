"""C06 - JSON export and import are exact inverses.

Scenario rows are enumerated by spec/Codec.tla (Rows), materialised on the real code, and every recorded
round trip is judged by TLC (Codec!Judge with the exact clauses: identifier, metadata keys / values /
types, unit labels, material properties, every data cell and branch mark, model name / parameters /
ranges / rmse / predictions, document fixpoint, file document = string document).
See harness/codec_driver.py."""
from ..codec_driver import run_codec, replay_file

PID = "C06"


def main(tier, seed):
    return run_codec(PID, ["json"], tier, seed)


def replay(path):
    return replay_file(PID, path)
