"""X03 (growth beyond the listed properties) - import of NIST ISODB JSON documents.

spec/Nist.tla states the decision table over the document's unit strings (Spec) and transcribes
_from_json_nist + the constructor's acceptance test (Impl); TLC compares them on all documents (NistMC:
the only divergence class is 'adsorbate volume per material', which the importer labels with the
non-existent loading basis 'volume'); this driver builds every document and imports it with the real
isotherm_from_json(fmt='NIST'); the outcome must be one the specification allows.
"""
import itertools
import json

from ..common import Run, exc_class, quiet_pygaps
from .. import tlc
from ..iso_common import labels_of

PID = "X03"


def document(d):
    units = d["u1"] if d["u2"] == "none" else f"{d['u1']}/{d['u2']}"
    ads = [{"InChIKey": "IJGRMHOSHXDMSA-UHFFFAOYSA-N", "name": "Nitrogen"}, {"InChIKey": "CURLTUGMZLYLDI-UHFFFAOYSA-N", "name": "Carbon Dioxide"}][: d["n"]]
    return {
        "filename": "verif.Isotherm1", "DOI": "10.0000/verif", "articleSource": "Figure 1", "date": "2026-01-01", "digitizer": "verif",
        "adsorbent": {"hashkey": "NIST-MATDB-0", "name": "verif_nist_material"}, "adsorbates": ads, "category": "exp", "temperature": 298,
        "isotherm_type": "excess", "adsorptionUnits": units, "pressureUnits": d["pu"], "compositionType": "molefraction", "concentrationUnits": "",
        "isotherm_data": [{"pressure": p, "total_adsorption": n, "species_data": [{"InChIKey": "x", "composition": 1, "adsorption": n}]}
                          for p, n in ((0.1, 0.5), (0.5, 1.5), (1.0, 2.0))],
    }


def main(tier, seed):
    quiet_pygaps()
    import pygaps.parsing as pgp
    run = Run(PID, tier, seed, "model_checking")
    res = tlc.must_pass("NistMC", timeout=600)
    run.set(states=res["distinct"], transitions=res["states_generated"], tlc_invariants=["SpecSane", "OnlyKnownDivergence"])
    dims = dict(u1=["mmol", "mol", "cm3(STP)", "g", "mg", "cm3", "mL", "ml", "molecules", "wt%"], u2=["g", "kg", "cm3", "mL", "mol", "mmol", "unitcell", "none"],
                pu=["bar", "Pa", "kPa", "torr", "psi", "mbar"], n=[1, 2])
    docs = [dict(zip(dims, v)) for v in itertools.product(*dims.values())]
    answers = tlc.oracle("NistOracle", docs, timeout=600)
    known = 0
    for d, a in zip(docs, answers):
        run.count(tuple(sorted(d.items())), nontrivial=d["n"] == 1)
        try:
            iso = pgp.isotherm_from_json(json.dumps(document(d)), fmt="NIST")
            lab = labels_of(iso)
            got = ["iso", lab]
        except Exception as e:
            got = [exc_class(e)] if exc_class(e) == "ParsingError" else ["other", exc_class(e)]
        allowed = [list(x) for x in a["spec"]]
        ok = any((g[0] == got[0] == "ParsingError") or (g[0] == got[0] == "iso" and all(g[1][k] == got[1][k] for k in ("pm", "pu", "lb", "lu", "mb", "mu"))) for g in allowed)
        if not ok:
            # the one divergence class the model checker admits (KnownClass): reported as a note, not as a violation of a listed property
            impl = list(a["impl"])
            if impl[0] == "other" and got[0] == "other":
                known += 1
                continue
            run.violation({"site": "isotherm_from_json(fmt='NIST')", "units": f"{d['u1']}/{d['u2']}", "pressure_unit": d["pu"], "observed": got[0] if got[0] != "other" else got[1]},
                          {"document_units": d, "observed": got, "allowed": allowed, "impl_model": impl})
    run.set(known_divergence_adsorbate_volume_basis=known)
    if known:
        run.note("NIST documents giving the uptake as a VOLUME of adsorbate per amount of material (cm3/g, mL/g, ...) are imported with loading_basis='volume', "
                 "which the isotherm constructor rejects (ParameterError instead of a parsed isotherm or a ParsingError): a genuine defect outside the listed properties")
    run.add("traces_validated_against_impl", len(docs))
    run.sample({"document_units": docs[5], "specification_allows": answers[5]["spec"]})
    run.set(exhaustive=True, rule="all 960 combinations of numerator unit x denominator unit x pressure unit x number of adsorbates; non-trivial = single-component documents")
    return run.finish()
