"""C17 - Horvath-Kawazoe type pore widths solve the method's potential equation.

spec/HK.tla holds (i) the published slit-pore HK equation with Kirkwood-Mueller constants over DecFloat
(CODATA literals, nothing read from the code), (ii) the Cheng-Yang term, (iii) the property's relational
clauses (Judge) and (iv) the scenario space.  spec/HKMC is model-checked exhaustively (arithmetic lemmas the
round trip rests on); spec/HKOracle is the batch oracle.

Binding:
* slit HK / HK-CY: TLC evaluates ln(p/p0) of the published equation for the chosen widths, the harness only
  exponentiates, feeds the pressures to the library and TLC requires the chosen widths back (1e-3).
* every model x geometry: the library's own potential closure is observed through the module attribute
  `_solve_hk` / `_solve_hk_cy` (wrapped, never replaced), evaluated at the returned length and just below /
  above it; TLC decides "solves the equation" (root or crossing), monotonicity, cumulative volume = liquid
  volume of the adsorbed amount, distribution = dV/dW.
* published equations held by the spec and compared (DecFloat, 1e-4) with the library's potential at every reported
  width: HK slit, Rege-Yang slit, Rege-Yang sphere; Rege-Yang cylinder: rings, populations and weighting (RYCylJudge).  Not decided: HK cylinder/sphere series, Rege-Yang cylinder per-ring series (DESIGN section 8).
* points are presented increasing / with neighbours swapped / reversed (every width must solve the equation for ITS
  pressure whatever the order), and histories of psd_microporous(adsorbate_model=None) over adsorbates x temperatures
  are judged call by call like first calls.
"""
import inspect
import math
import os

# small dense linear algebra only: threaded BLAS is slower here, oversubscribes a shared box and makes the
# optimiser path depend on the thread count; must be set before numpy is first imported
for _v in ("OMP_NUM_THREADS", "OPENBLAS_NUM_THREADS", "MKL_NUM_THREADS"):
    os.environ.setdefault(_v, "1")

from ..common import Run, exc_class, MachineryError, quiet_pygaps
from .. import tlc
from ..encode import dec_enc, dec_dec

PID = "C17"
EPS = 1e-3
NONFINITE = [0, 9999]
PA_PER = {"bar": 1e5, "kPa": 1e3, "torr": 101325.0 / 760.0}


def stored_isotherm(pygaps, st, adsorbate_name, rel_pressure, loading, T):
    """The isotherm with relative pressures `rel_pressure`, stored in representation st (spec ApiStorage).  Absolute
    representations use the adsorbate API's own saturation pressure; when none exists (supercritical) the relative
    representation with the same temperature unit is used instead.  Returns (isotherm, name of the representation used)."""
    import numpy
    mode, unit, used = st["pressure_mode"], st["pressure_unit"], st["name"]
    p = numpy.asarray(rel_pressure, dtype=float)
    if mode == "absolute":
        try:
            psat = float(pygaps.Adsorbate.find(adsorbate_name).saturation_pressure(T))
            p = p * psat / PA_PER[unit]
        except Exception:
            mode, unit, used = "relative", "none", "relative-" + ("K" if st["temperature_unit"] == "K" else "C")
    elif mode == "relative%":
        p = p * 100.0
    iso = pygaps.PointIsotherm(pressure=list(p), loading=list(loading), material="hk-sample", adsorbate=adsorbate_name,
                               temperature=T if st["temperature_unit"] == "K" else T - 273.15, temperature_unit=st["temperature_unit"],
                               pressure_mode=mode, pressure_unit=None if unit == "none" else unit,
                               loading_basis="molar", loading_unit="mmol", material_basis="mass", material_unit="g")
    return iso, used


KEYS = {"d": "molecular_diameter", "alpha": "polarizability", "chi": "magnetic_susceptibility", "ns": "surface_density",
        "rho": "liquid_density", "M": "adsorbate_molar_mass"}


def enc(x):
    x = float(x)
    if not math.isfinite(x):
        return NONFINITE
    return dec_enc(x)


def to_dict(rec, keys):
    return {KEYS[k]: dec_dec(rec[k]) for k in keys}


class Capture:
    """Wraps psd_micro._solve_hk / _solve_hk_cy: records the potential closure and the returned lengths.
    With fake=True the solver is not run (used once per scenario to obtain the library's potential so that
    pressures for which a solution exists can be constructed)."""

    def __init__(self, pm):
        self.pm = pm
        for name in ("_solve_hk", "_solve_hk_cy"):
            if not callable(getattr(pm, name, None)):
                raise MachineryError(f"observation point psd_micro.{name} is gone; C17 needs a hook")
        self.orig = pm._solve_hk
        self.orig_cy = pm._solve_hk_cy
        self.fake = False
        self.last = None

    def __enter__(self):
        cap = self

        def solve(pressure, hk_fun, bound, geo):
            cap.last = {"f": hk_fun, "bound": bound, "geo": geo}
            if cap.fake:
                return [bound * 2.0 + 0.1 * i for i in range(len(pressure))]
            out = cap.orig(pressure, hk_fun, bound, geo)
            cap.last["L"] = [float(x) for x in out]
            return out

        def solve_cy(pressure, loading, hk_fun, bound, geo):
            cap.last = {"f": hk_fun, "bound": bound, "geo": geo}
            if cap.fake:
                return [bound * 2.0 + 0.1 * i for i in range(len(pressure))]
            out = cap.orig_cy(pressure, loading, hk_fun, bound, geo)
            cap.last["L"] = [float(x) for x in out]
            return out

        self.pm._solve_hk = solve
        self.pm._solve_hk_cy = solve_cy
        return self

    def __exit__(self, *a):
        self.pm._solve_hk = self.orig
        self.pm._solve_hk_cy = self.orig_cy


def pick(i, seed, stride):
    """deterministic pseudo-random 1-in-stride slice (multiplicative hash: no aliasing with the nesting of the scenario product)"""
    return stride <= 1 or ((i * 2654435761 + seed * 1640531527) % 4294967296) * stride < 4294967296


def select(scen, tier, seed):
    """thorough: the whole product.
    quick: a seed-chosen slice, every model x geometry represented (slit HK round trips 1/2, Rege-Yang cylinder 1/15, others 1/4)."""
    out = []
    for s in scen:
        if tier != "thorough":
            ry_cyl = s["model"].startswith("RY") and s["geo"] == "cylinder"
            slit_hk = s["model"].startswith("HK") and s["geo"] == "slit"
            if not pick(s["id"], seed, 15 if ry_cyl else (2 if slit_hk else 4)):
                continue
        out.append(s)
    return out


def main(tier, seed):
    import numpy
    quiet_pygaps()
    import pygaps
    import pygaps.characterisation.psd_micro as pm
    from pygaps.characterisation.models_hk import get_hk_model
    run = Run(PID, tier, seed, "exploration")
    thorough = tier == "thorough"

    # ---- 1. TLC: arithmetic lemmas of the slit round trip, exhaustively over all chosen-width grids
    res = tlc.must_pass("HKMC", timeout=600)
    run.set(states=res["distinct"], transitions=res["states_generated"], tlc_depth=res["depth"],
            tlc_invariants=["FormsAgree", "Increasing", "Physical", "PermOk", "RYAttractive"])

    # ---- 2. scenario space from the spec
    space = tlc.oracle("HKOracle", [{"k": "scen"}], timeout=300)[0]
    scen = space["scenarios"]
    if len(scen) != 4 * 3 * 5 * 3 * 6:
        raise MachineryError(f"spec enumerates {len(scen)} scenarios, expected 1080")
    chosen = select(scen, tier, seed)

    # adsorbent parameters: spec literals, or (oxide-ion sets) the library table as input data
    ads_tab = space["adsorbents"]
    adsorbents = {}
    audit = []
    for hid, h in ads_tab.items():
        if h["builtin"]:
            try:
                lib = get_hk_model(h["name"])
            except Exception as e:
                run.violation({"site": "get_hk_model", "adsorbent": h["name"], "observed": "exception:" + exc_class(e)}, {"message": str(e)[:200]})
                continue
            libenc = {k: enc(lib[KEYS[k]]) for k in ("d", "alpha", "chi", "ns")}
            if h["known"]:
                audit.append((hid, {"k": "audit", "lib": libenc, "ref": {k: h[k] for k in ("d", "alpha", "chi", "ns")}}))
            # judged with the specification's reference constants; the library is driven by NAME (its own table)
            refenc = {k: h[k] for k in ("d", "alpha", "chi", "ns")} if h["known"] else libenc
            adsorbents[hid] = {"name": h["name"], "arg": h["name"], "enc": refenc, "dict": lib, "cls": h["name"]}
        else:
            e_ = {k: h[k] for k in ("d", "alpha", "chi", "ns")}
            adsorbents[hid] = {"name": h["name"], "arg": to_dict(h, ("d", "alpha", "chi", "ns")), "enc": e_,
                               "dict": to_dict(h, ("d", "alpha", "chi", "ns")), "cls": "user"}
    adsorbates = {aid: {"enc": a, "dict": to_dict(a, ("d", "alpha", "chi", "ns", "rho", "M"))} for aid, a in space["adsorbates"].items()}

    # ---- 3. prep: loadings, coverages, chosen slit widths (spec)
    live = [s for s in chosen if s["h"] in adsorbents]
    preps = tlc.oracle("HKOracle", [{"k": "prep", "geo": s["geo"], "fam": s["fam"], "npts": s["npts"], "perm": s["perm"], "a": adsorbates[s["a"]]["enc"], "h": adsorbents[s["h"]]["enc"]}
                                    for s in live], timeout=600)

    # ---- 4. slit HK / HK-CY: pressures from the published equation (spec)
    slit_idx = [i for i, s in enumerate(live) if s["geo"] == "slit" and s["model"].startswith("HK")]
    slit_q = []
    for i in slit_idx:
        s, p = live[i], preps[i]
        th = [dec_dec(x) for x in p["theta"]]
        slit_q.append({"k": "slit", "L": [p["L"][j - 1] for j in p["pi"]], "n": p["n"], "a": adsorbates[s["a"]]["enc"], "h": adsorbents[s["h"]]["enc"], "T": s["T"],
                       "cy": s["model"].endswith("CY"), "ln1m": [enc(math.log1p(-x)) for x in th]})
    slit_ans = dict(zip(slit_idx, tlc.oracle("HKOracle", slit_q, timeout=900))) if slit_q else {}

    # ---- 5. run the library
    judge_q, meta = [], []
    rycyl = []
    nstored = {}
    with Capture(pm) as cap:
        for i, s in enumerate(live):
            p = preps[i]
            cy = s["model"].endswith("CY")
            fn = pm.psd_horvath_kawazoe if s["model"].startswith("HK") else pm.psd_horvath_kawazoe_ry
            site = fn.__name__
            A, H = adsorbates[s["a"]], adsorbents[s["h"]]
            T = dec_dec(s["T"])
            N = s["npts"]
            n = numpy.array([dec_dec(x) for x in p["n"]])
            theta = [dec_dec(x) for x in p["theta"]]
            ln1m = [math.log1p(-x) for x in theta]
            corr = numpy.array([1 + l / t for l, t in zip(ln1m, theta)]) if cy else numpy.zeros(N)
            sigbase = {"site": site, "model": s["model"], "geometry": s["geo"]}
            chosenW = []
            try:
                if i in slit_ans:
                    lnp = numpy.array([dec_dec(x) for x in slit_ans[i]["lnp"]])
                    chosenW = [p["W"][j - 1] for j in p["pi"]]
                else:
                    # the library's own potential -> pressures for which a solution exists in the property's width range
                    cap.fake = True
                    fn(numpy.array([0.1, 0.2, 0.3]), numpy.array([1.0, 2.0, 3.0]), T, s["geo"], A["dict"], H["dict"], use_cy=cy)
                    cap.fake = False
                    f, bound = cap.last["f"], cap.last["bound"]
                    g = 1 if s["geo"] == "slit" else 2
                    lmax = (3.0 + H["dict"]["molecular_diameter"]) / g
                    scan = numpy.linspace(bound * 1.0001, lmax, 240)
                    with numpy.errstate(all="ignore"):
                        ph = numpy.array([f(x) for x in scan])
                    ph[~numpy.isfinite(ph)] = numpy.inf
                    l0 = scan[min(int(numpy.argmin(ph)) + 1, len(scan) - 2)]
                    grid = l0 + (lmax - l0) * numpy.arange(1, N + 1) / (N + 1)
                    phi = numpy.sort(numpy.array([f(x) for x in grid]))
                    phi = phi + 1e-9 * numpy.arange(N)
                    phi = phi[numpy.array(p["pi"]) - 1]       # order of presentation chosen by the spec
                    if p["over"]:
                        phi[p["over"] - 1] = f(dec_dec(p["overL"]))     # a pore far beyond the range in the middle (spec "over")
                    lnp = phi - corr
                cap.fake = False
                if p["dup"]:
                    # a duplicate measurement: the pressure of the point before, with its own (larger) loading (spec "dup")
                    lnp = numpy.array(lnp, dtype=float)
                    lnp[p["dup"] - 1] = lnp[p["dup"] - 2]
                    if chosenW:
                        chosenW = list(chosenW)
                        chosenW[p["dup"] - 1] = NONFINITE if cy else chosenW[p["dup"] - 2]     # with Cheng-Yang the other loading gives another width
                    run.add("runs_with_a_repeated_pressure")
                pressure = numpy.exp(lnp)
                if not (numpy.all(numpy.isfinite(pressure)) and numpy.all(pressure > 0) and len(set(pressure.tolist())) == N - (1 if p["dup"] else 0)):
                    run.add("scenarios_skipped_degenerate_pressures")
                    continue
                increasing = bool(numpy.all(numpy.diff(pressure) > 0))
                target = lnp + corr
                if increasing and numpy.any(numpy.diff(target) < 0):
                    run.add("runs_with_increasing_pressure_and_decreasing_solution")      # Cheng-Yang near saturation
                if not increasing:
                    run.add("runs_with_non_monotone_pressures")
                if p["over"]:
                    run.add("runs_with_a_point_beyond_the_size_cutoff")
                entry = "raw"
                # the isotherm entry point needs an adsorption branch (increasing pressures)
                nondecreasing = bool(numpy.all(numpy.diff(pressure) >= 0))
                use_api = bool(numpy.all(pressure < 0.999)) and ((increasing and pick(s["id"] + 5, seed, 4)) or (bool(p["dup"]) and nondecreasing))
                if use_api:
                    entry = "api"
                    st = space["api_storage"][(s["id"] // 12 + s["id"] + seed) % len(space["api_storage"])]
                    iso, used = stored_isotherm(pygaps, st, "N2", pressure, n, T)
                    nstored[used] = nstored.get(used, 0) + 1
                    sigbase["stored_pressure_mode"] = iso.pressure_mode
                    out = pm.psd_microporous(iso, psd_model=s["model"], pore_geometry=s["geo"], material_model=H["arg"],
                                             adsorbate_model=A["dict"], p_limits=(None, None))
                    w, dist, cum = out["pore_widths"], out["pore_distribution"], out["pore_volume_cumulative"]
                    sigbase["site"] = "psd_microporous"
                else:
                    with numpy.errstate(all="ignore"):
                        w, dist, cum = fn(pressure, n, T, s["geo"], A["dict"], H["dict"], use_cy=cy)
            except MachineryError:
                raise
            except Exception as e:
                cap.fake = False
                run.violation({**sigbase, "clause": "returns", "observed": "exception:" + exc_class(e)}, {"scenario": s, "message": str(e)[:300]})
                continue
            L = cap.last.get("L")
            f, bound = cap.last["f"], cap.last["bound"]
            if s["model"].startswith("RY") and s["geo"] == "cylinder" and L is not None:
                rycyl.append((s, dict(sigbase), f, A, H, [float(x) for x in L]))
            if L is None:
                raise MachineryError("solver wrapper did not see a call")
            obs = {"f0": [], "fm": [], "fp": [], "gm": [], "gp": []}
            with numpy.errstate(all="ignore"):
                for x in L:
                    obs["f0"].append(float(f(x)))
                    obs["fm"].append(float(f(max(x * (1 - EPS), bound * (1 + 1e-12)))))
                    obs["fp"].append(float(f(x * (1 + EPS))))
                    obs["gm"].append(float(f(max(x * (1 - EPS / 10), bound * (1 + 1e-12)))))
                    obs["gp"].append(float(f(x * (1 + EPS / 10))))
            if not all(math.isfinite(v) for k in obs for v in obs[k]):
                run.violation({**sigbase, "clause": "equation", "observed": "library potential not finite at the reported width"}, {"scenario": s})
                continue
            q = {"k": "judge", "family": s["model"][:2], "T": s["T"], "geo": s["geo"], "cy": cy, "a": A["enc"], "h": H["enc"], "lnp": [enc(x) for x in lnp], "n": p["n"],
                 "ln1m": [enc(x) for x in ln1m], "L": [enc(x) for x in L], "f0": [enc(x) for x in obs["f0"]], "fm": [enc(x) for x in obs["fm"]],
                 "fp": [enc(x) for x in obs["fp"]], "gm": [enc(x) for x in obs["gm"]], "gp": [enc(x) for x in obs["gp"]], "w": [enc(x) for x in w], "dist": [enc(x) for x in dist], "cum": [enc(x) for x in cum],
                 "chosen": chosenW}
            judge_q.append(q)
            meta.append((s, sigbase, entry, H["cls"], L, [float(x) for x in pressure], [float(x) for x in w]))

        # ---- 5b. histories through psd_microporous(adsorbate_model=None) (spec/HK.tla Histories): the adsorbate parameters are
        # looked up by the library; every call is judged like a first call with the parameters of ITS adsorbate at ITS temperature
        # (liquid density and molar mass straight from CoolProp - an independent reference)
        from ..units_common import coolprop_direct
        # (registered in the session list and passed by name: the isotherm constructor cannot take an Adsorbate object)
        argon = pygaps.Adsorbate("c17-argon", store=True, backend_name="ARGON", molecular_diameter=0.336, polarizability=1.63e-3,
                                 magnetic_susceptibility=3.25e-8, surface_density=8.52e18)
        stored = pygaps.Adsorbate("c17-stored-gas", store=True, molecular_diameter=0.32, polarizability=2.1e-3, magnetic_susceptibility=4.0e-8,
                                  surface_density=7.0e18, liquid_density=1.25, molar_mass=41.5, saturation_pressure=120000.0)
        ads_obj = {"N2": pygaps.Adsorbate.find("N2"), "Ar": argon, "stored": stored}
        Hc = adsorbents["CarbonHK"]
        cfgs = []
        for c in space["hist_configs"]:
            ao, T = ads_obj[c["ads"]], dec_dec(c["T"])
            if c["ads"] == "stored":
                direct = {"rhoLmass": 1.25, "M": 41.5}         # the stored properties given above (input data)
            else:
                direct = coolprop_direct(ao, T)
            if direct is None:
                raise MachineryError("CoolProp reference not available for the history scenarios")
            aenc = {"d": enc(ao.get_prop("molecular_diameter")), "alpha": enc(ao.get_prop("polarizability")), "chi": enc(ao.get_prop("magnetic_susceptibility")),
                    "ns": enc(ao.get_prop("surface_density")), "rho": enc(direct["rhoLmass"]), "M": enc(direct["M"])}
            cfgs.append({"ads": c["ads"], "obj": ao, "T": T, "Tenc": c["T"], "a": aenc})
        hp = tlc.oracle("HKOracle", [{"k": "prep", "geo": "slit", "fam": "lin", "npts": 10, "perm": "id", "a": c["a"], "h": Hc["enc"]} for c in cfgs], timeout=300)
        hs = tlc.oracle("HKOracle", [{"k": "slit", "L": pr["L"], "n": pr["n"], "a": c["a"], "h": Hc["enc"], "T": c["Tenc"], "cy": False,
                                      "ln1m": [enc(math.log1p(-dec_dec(x))) for x in pr["theta"]]} for c, pr in zip(cfgs, hp)], timeout=300)
        nhist = 0
        for hi_, hist in enumerate(space["histories"]):
            if not thorough and not pick(hi_, seed, 2):
                continue
            nhist += 1
            for step, ci in enumerate(hist):
                c, pr, sl = cfgs[ci - 1], hp[ci - 1], hs[ci - 1]
                lnp = numpy.array([dec_dec(x) for x in sl["lnp"]])
                pressure = numpy.exp(lnp)
                n = numpy.array([dec_dec(x) for x in pr["n"]])
                sigbase = {"site": "psd_microporous", "model": "HK", "geometry": "slit", "adsorbate_model": "database"}
                s_ = {"id": 100000 + 10 * hi_ + step, "history": list(hist), "step": step + 1, "adsorbate": c["ads"], "T": c["T"]}
                try:
                    st = space["api_storage"][(hi_ + 2 * step + seed) % len(space["api_storage"])]
                    iso, used = stored_isotherm(pygaps, st, c["obj"].name, pressure, n, c["T"])
                    nstored[used] = nstored.get(used, 0) + 1
                    sigbase["stored_pressure_mode"] = iso.pressure_mode
                    out = pm.psd_microporous(iso, psd_model="HK", pore_geometry="slit", material_model="Carbon(HK)", adsorbate_model=None, p_limits=(None, None))
                except Exception as e:
                    run.violation({**sigbase, "clause": "returns", "observed": "exception:" + exc_class(e)}, {"scenario": s_, "message": str(e)[:300]})
                    continue
                L, f, bound = cap.last.get("L"), cap.last["f"], cap.last["bound"]
                ob = {k: [] for k in ("f0", "fm", "fp", "gm", "gp")}
                for x in L:
                    ob["f0"].append(enc(f(x)))
                    ob["fm"].append(enc(f(max(x * (1 - EPS), bound * (1 + 1e-12)))))
                    ob["fp"].append(enc(f(x * (1 + EPS))))
                    ob["gm"].append(enc(f(max(x * (1 - EPS / 10), bound * (1 + 1e-12)))))
                    ob["gp"].append(enc(f(x * (1 + EPS / 10))))
                judge_q.append({"k": "judge", "family": "HK", "T": c["Tenc"], "geo": "slit", "cy": False, "a": c["a"], "h": Hc["enc"], "lnp": [enc(x) for x in lnp],
                                "n": pr["n"], "ln1m": [enc(0.0) for _ in lnp], "L": [enc(x) for x in L], **ob, "w": [enc(x) for x in out["pore_widths"]],
                                "dist": [enc(x) for x in out["pore_distribution"]], "cum": [enc(x) for x in out["pore_volume_cumulative"]], "chosen": pr["W"]})
                meta.append((s_, sigbase, "api-history", "Carbon(HK)", L, [float(x) for x in pressure], [float(x) for x in out["pore_widths"]]))
        run.set(adsorbate_histories=nhist, psd_microporous_runs_by_stored_representation=nstored)

    # ---- 5c. Rege-Yang cylinder: which rings of molecule centres exist, the population rule of each (a ring narrower than
    # one molecule is a single file and counts ONE) and the population-weighted average (spec/HK.tla RYCylJudge).  The
    # per-ring series values come from the library's own series routine (closure variable potential_general of the
    # observed potential); lengths: the solver's own plus, per number of rings m = 1..5, innermost ring diameters of
    # 0.3, 0.7 (single file), 1.3 and 1.9 molecule diameters.
    ry_q, ry_meta = [], []
    for s, sigbase, f, A, H, Ls in rycyl:
        try:
            nl = inspect.getclosurevars(f).nonlocals
            pg, d0, dg = nl["potential_general"], float(nl["d_eff"]), float(nl["d_ads"])
            nm, am, na, aa = nl["n_mat"], nl["a_mat"], nl["n_ads"], nl["a_ads"]
        except Exception:
            run.add("rycyl_scenarios_without_observable_series_routine")
            continue
        d0_ref = (A["dict"]["molecular_diameter"] + H["dict"]["molecular_diameter"]) / 2
        if abs(d0 - d0_ref) > 1e-9 or abs(dg - A["dict"]["molecular_diameter"]) > 1e-9:
            run.add("rycyl_scenarios_without_observable_series_routine")
            continue
        designed = [d0 + (m - 1 + fr / 2) * dg for m in range(1, 6) for fr in (0.3, 0.7, 1.3, 1.9)]
        for x in designed + Ls:
            K = int(max(0.0, (x - d0) / dg)) + 3
            phis, asins = [], []
            with numpy.errstate(all="ignore"):
                for k in range(1, K + 1):
                    wd = 2 * (x - d0 - (k - 1) * dg)
                    asins.append(math.asin(dg / wd) if wd >= dg else 1.0)
                    if wd < 0:
                        phis.append(0.0)
                    elif k == 1:
                        phis.append(float(pg(x, d0, nm, am, d0 / x)))
                    else:
                        phis.append(float(pg(x, dg, na, aa, dg / (x - d0 - (k - 2) * dg))))
                fx = float(f(x))
            if not (math.isfinite(fx) and all(math.isfinite(v) for v in phis)):
                run.add("rycyl_points_skipped_nonfinite")
                continue
            ry_q.append({"k": "rycyl", "L": enc(x), "d0": enc(d0), "dg": enc(dg), "T": s["T"], "phi": [enc(v) for v in phis],
                         "asin": [enc(v) for v in asins], "f": enc(fx)})
            ry_meta.append((s, sigbase, x, fx))
    ry_ans = tlc.oracle("HKOracle", ry_q, timeout=900, chunk=400) if ry_q else []
    nry = {"judged": 0, "edge": 0, "with_single_file": 0, "multi_ring_with_single_file": 0}
    for (s, sigbase, x, fx), ans in zip(ry_meta, ry_ans):
        if not ans["complete"]:
            raise MachineryError("Rege-Yang cylinder query without a ring beyond the last existing one")
        if ans["edge"]:
            nry["edge"] += 1
            continue
        run.count(("rycyl", s["id"], round(x, 9)))
        nry["judged"] += 1
        if ans["nsingle"]:
            nry["with_single_file"] += 1
            if ans["nrings"] >= 2:
                nry["multi_ring_with_single_file"] += 1
        if not ans["ok"]:
            run.violation({**sigbase, "site": "psd_horvath_kawazoe_ry", "clause": "published", "rings": ans["nrings"], "single_file_innermost": bool(ans["nsingle"]),
                           "observed": "the library's potential is not the population-weighted average over the existing rings (a ring narrower than a molecule counts one)"},
                          {"scenario": s, "L": x, "library": fx, "expected": dec_dec(ans["expected"])})
    run.set(rege_yang_cylinder_population_points=nry)

    # ---- 6. TLC judges
    answers = tlc.oracle("HKOracle", judge_q + [a for _, a in audit], timeout=1500, chunk=400)
    for (hid, _), ans in zip(audit, answers[len(judge_q):]):
        run.count(("audit", hid))
        if not ans["ok"]:
            run.violation({"site": "models_hk", "adsorbent": ads_tab[hid]["name"], "clause": "parameter table", "observed": "differs from the published parameter set (reference constants of spec/HK.tla)",
                           "fields": ",".join(sorted(ans["bad"]))}, {})
    ncls = {}
    npub = {}
    for (s, sigbase, entry, hcls, L, pressure, w), ans in zip(meta, answers):
        key = (s["id"], entry)
        run.count(key, n=len(L))
        for c in ans["eqcls"]:
            ncls[c] = ncls.get(c, 0) + 1
        detail = {"scenario": s, "entry": entry, "pressure": pressure, "solver_lengths": L, "reported_widths": w, "answer": ans}
        if not ans["shape"]:
            run.violation({**sigbase, "clause": "shape", "observed": "output lengths inconsistent with the number of solved points"}, detail)
            continue
        bad = [c for c in ans["eqcls"] if c not in ("root", "bracket")]
        for c in sorted(set(bad)):
            run.violation({**sigbase, "clause": "equation",
                           "observed": "local extremum of the potential, not a solution" if c == "localext" else "reported width does not solve the potential equation"},
                          detail)
        if ans["pub"]:
            run.violation({**sigbase, "clause": "published", "observed": "the library's potential at the reported width is not the published " + ans["published"] + " equation"}, detail)
        npub[ans["published"]] = npub.get(ans["published"], 0) + len(L)
        if ans["rt"]:
            run.violation({**sigbase, "clause": "roundtrip", "observed": "width differs from the one the published slit equation was evaluated for"}, detail)
        if ans["short"]:
            run.violation({**sigbase, "clause": "roundtrip", "observed": "fewer widths than pressures"}, detail)
        if not ans["conv"]:
            run.violation({**sigbase, "clause": "width", "observed": "reported widths are not g*L - d_adsorbent of consecutive solutions"}, detail)
        if not ans["cum"]:
            run.violation({**sigbase, "clause": "cumulative", "observed": "cumulative pore volume is not n*M/rho_L"}, detail)
        if ans["dist"]:
            run.violation({**sigbase, "clause": "distribution", "observed": "distribution is not dV/dW"}, detail)
        if ans["mono"]:
            run.violation({**sigbase, "clause": "monotone", "observed": "width decreases while the right-hand side of the equation increases"}, detail)
        if len(run.cov["samples"]) < 4 and (s["id"] + seed) % 97 == 0:
            run.sample({"scenario": s, "entry": entry, "pressure": pressure[:4], "solver_lengths": L[:4], "reported_widths": w[:3],
                        "equation_classes": ans["eqcls"][:4], "width_convention": ans["conv"]})
    if not run.cov["samples"] and meta:
        s, _, entry, _, L, pressure, w = meta[0]
        run.sample({"scenario": s, "entry": entry, "pressure": pressure[:4], "solver_lengths": L[:4], "reported_widths": w[:3]})
    run.add("traces_validated_against_impl", len(judge_q))
    run.set(points_compared_with_published_equation=npub, equation_classes=ncls, scenarios_run=len(judge_q), through_psd_microporous=sum(1 for m in meta if m[2] == "api"), scenarios_in_spec=len(scen), exhaustive=bool(thorough),
            slit_roundtrips=sum(1 for q in judge_q if q["chosen"]),
            rule="scenario = model(4) x geometry(3) x adsorbent(5: Carbon(HK), 2 oxide-ion sets by name, 2 user dictionaries) x adsorbate(3 dictionaries) x "
                 "temperature(6: 70..300 K), each with an increasing loading family (3) of 10/20/40 points, enumerated by spec/HK.tla; "
                 + ("thorough: all 1080" if thorough else "quick: seed-chosen slice with every model x geometry")
                 + "; widths between the minimum of the potential / geometric minimum and 3 nm; pressures = published slit equation evaluated by TLC (HK slit) or the "
                   "library's own potential at the chosen lengths (others); evaluation = one pressure point; distinct = (scenario id, raw function | psd_microporous); all non-trivial")
    run.assume("published equations held by the specification and compared with the library's potential at every reported width (1e-4): HK slit (Horvath-Kawazoe 1983), "
               "Rege-Yang slit and sphere (Rege & Yang 2000; the slit one-layer term is the 10-4 potential summed over both walls, the library docstring has its signs wrong). "
               "Rege-Yang cylinder: ring existence, population rule (single file counts one) and weighting decided by spec/HK.tla RYCylJudge with the per-ring series taken from the library's own routine. "
               "NOT decided: fidelity of the HK cylinder/sphere (Saito-Foley, Cheng-Yang) series and of the Rege-Yang cylinder per-ring series - for them only "
               "'the reported width solves (or brackets a crossing of) the library's own potential' plus the relational clauses")
    run.assume("Cheng-Yang coverage is n/(1.01*max n) (the library's saturation convention); 'non-decreasing in pressure' is judged against the right-hand side "
               "ln p + CY term of the method's equation")
    run.assume("CODATA 2018 constants, (2/5)^(1/6) = 0.858374219; the three built-in adsorbent sets are driven by name and judged with the specification's own reference "
               "constants (Carbon: Horvath & Kawazoe 1983; oxide ions: Saito & Foley 1991 / Cheng & Yang 1994), the library tables are audited against them")
    run.assume("isotherms handed to psd_microporous are stored as relative, relative%, absolute bar/kPa/torr, K or degC (absolute ones built with the adsorbate API's own saturation pressure)")
    return run.finish()
