"""X05 (growth beyond the listed properties) - which Material does an isotherm refer to?

spec/MatReg.tla is a state machine over Material OBJECTS (heap), the registry pygaps.MATERIAL_LIST (a sequence of
objects) and the isotherms' bindings, with one action per public operation (NewMaterial, ListAppend, Find, NewIsotherm,
SetMaterial, EditProps, GetProp, RoundTrip = to_dict + constructor, ConvertMaterial, ReadLoading).  Impl transcribes
material.py / the material setter / to_dict / the way conversions reach density and molar mass; Violated states the
documented clauses; DevClass names the classes where the code is known to leave the documentation.

1. TLC model-checks MatRegMC exhaustively (every history over a bounded heap): in every reachable state, for every
   enabled operation, Impl breaks a documented clause exactly in the named deviation classes (OnlyKnownDivergence),
   RoundTripEqual, NoActionAtADistance, conversions read the bound object, store=True keeps names unique, references resolve.
   quick: MatRegMC.cfg (2 objects, 1 isotherm); thorough adds MatRegMCTwoIsos.cfg (2 objects, 2 isotherms) and
   MatRegMCThorough.cfg (3 objects, density + molar mass, 3 bases) and reads TLC's per-action coverage (no dead action).
2. `tlc -simulate` of the same machine on a larger alphabet (three names - two differing in letter case only -, three
   property keys, three bases) produces behaviours; each is replayed on real Material / PointIsotherm objects with
   pygaps.MATERIAL_LIST emptied for the behaviour and restored afterwards.  After every step the real objects are
   projected to the abstract state (object identity -> heap position).
3. TLC (MatRegOracle!StepVerdict) judges every observed step from the observed pre-state: ok iff it satisfies every
   clause or is exactly the transcribed behaviour of the named deviation class of (pre-state, operation).  A step that
   is neither is a violation naming the clauses broken; named deviations are counted as observations.
"""
import glob
import json
import os
import re
import shutil
import time
from fractions import Fraction

from ..common import Run, exc_class, MachineryError, quiet_pygaps
from .. import tlc

PID = "X05"
UNITS = dict(pressure_mode='absolute', pressure_unit='bar', loading_basis='molar', loading_unit='mmol', temperature_unit='K')
BASIS_UNIT = {"mass": "g", "volume": "cm3", "molar": "mol"}
REAL_NAME = {"a": "verif_x05_m", "A": "VERIF_X05_M", "b": "verif_x05_m2"}      # a/A differ in letter case only; a is a prefix of b
NOTE = {1: "n1", 2: "n2"}
ACTIONS = ["NewMaterial", "ListAppend", "Find", "NewIsotherm", "SetMaterial", "EditProps", "GetProp", "RoundTrip", "ConvertMaterial", "ReadLoading"]
SITE = {"NewMaterial": "Material(name, store=, **properties)", "ListAppend": "MATERIAL_LIST.append", "Find": "Material.find",
        "NewIsotherm": "isotherm constructor (material=)", "SetMaterial": "BaseIsotherm.material setter",
        "EditProps": "Material.properties / density, molar_mass setters", "GetProp": "Material.get_prop / density, molar_mass accessors",
        "RoundTrip": "to_dict + constructor", "ConvertMaterial": "PointIsotherm.convert_material", "ReadLoading": "PointIsotherm.loading(material_basis=)"}
REPRO = {
    "StoreDuplicateIgnored": "Material('m', density=1, store=True); Material('m', density=2, store=True); Material.find('m').density -> 1 "
                             "(the second object is silently left out of MATERIAL_LIST although the manual says 'automatically stored')",
    "DictUpdatesRegistered": "m = Material('m', density=1, store=True); i1 = BaseIsotherm(material='m', ...); BaseIsotherm(material={'name': 'm', 'density': 2}, ...); "
                             "m.density -> 2 and i1.material.density -> 2 (building an isotherm from a dictionary rewrites the registered material every other isotherm shares)",
    "NamelessMaterial": "i = BaseIsotherm(material={'density': 1}, ...) -> accepted, i.material.name is None; BaseIsotherm(material={}, ...).to_dict() -> TypeError "
                        "(__str__ returned non-string)",
    "GetPropNoneForReserved": "Material('m').get_prop('density') -> None (documented: ParameterError if it does not exist; get_prop('batch') does raise)",
    "AccessorNotCallable": "Material('m', molar_mass=256).molar_mass() -> TypeError: 'float' object is not callable (manual/material.rst shows my_material.molar_mass() >> 256)",
    "RoundTripRebindsToRegisteredNamesake": "Material('m', density=1, store=True); p = Material('m', density=2); i = BaseIsotherm(material=p, ...); j = BaseIsotherm(**i.to_dict()); "
                                            "j.material is the REGISTERED object, whose density is now 2 (the export is resolved by name again and merged into the registered namesake)",
    "MissingPropertyTypeError": "PointIsotherm(..., material='m').convert_material(basis_to='volume', unit_to='cm3') with no density -> TypeError "
                                "(unsupported operand type(s) for ** : 'NoneType' and 'int') instead of a ParameterError naming the missing property",
}


# ------------------------------------------------------------------ TLA+ value parser (trace files)
_TOK = re.compile(r'\s*(<<|>>|\|->|:>|@@|[\[\]{}(),]|"(?:[^"\\]|\\.)*"|-?\d+|[A-Za-z_]\w*)')


def parse_tla(text):
    toks = _TOK.findall(text)
    pos = [0]

    def peek():
        return toks[pos[0]] if pos[0] < len(toks) else None

    def eat(t=None):
        x = toks[pos[0]]
        if t is not None and x != t:
            raise MachineryError(f"TLA+ value: expected {t!r}, found {x!r} in {text[:120]!r}")
        pos[0] += 1
        return x

    def seq(close):
        out = []
        while peek() != close:
            out.append(val())
            if peek() == ",":
                eat()
        eat(close)
        return out

    def val():
        t = eat()
        if t == "<<":
            return seq(">>")
        if t == "{":
            return seq("}")
        if t == "[":
            d = {}
            while peek() != "]":
                k = eat()
                eat("|->")
                d[k] = val()
                if peek() == ",":
                    eat()
            eat("]")
            return d
        if t.startswith('"'):
            return t[1:-1]
        if t in ("TRUE", "FALSE"):
            return t == "TRUE"
        if re.fullmatch(r"-?\d+", t):
            return int(t)
        raise MachineryError(f"TLA+ value: unexpected token {t!r} in {text[:120]!r}")
    v = val()
    return v


# ------------------------------------------------------------------ the real objects behind an abstract state
class World:
    def __init__(self, alpha):
        import pygaps
        self.pg = pygaps
        self.keys = sorted(alpha["keys"])
        self.noname = alpha["noname"]
        self.actual = {k: {i + 1: float(v) for i, v in enumerate(vs)} for k, vs in alpha["actual"].items()}
        self.actual["note"] = dict(NOTE)
        self.objs = []
        self.isos = {1: None, 2: None}
        self.step = 0

    # abstract <-> real
    def rname(self, n):
        return REAL_NAME[n]

    def aname(self, n):
        if n is None:
            return self.noname
        for a, r in REAL_NAME.items():
            if n == r and type(n) is str:
                return a
        return "?" + repr(n)[:40]

    def rval(self, k, v):
        return self.actual[k][v]

    def acode(self, k, x):
        if x is None:
            return 0
        for v, r in self.actual[k].items():
            if type(x) is type(r) and x == r:
                return v
        return 9

    def rprops(self, p):
        return {k: self.rval(k, v) for k, v in sorted(p.items()) if v}

    def index(self, m):
        for i, o in enumerate(self.objs):
            if o is m:
                return i + 1
        self.objs.append(m)
        return len(self.objs)

    def known(self, m):
        for i, o in enumerate(self.objs):
            if o is m:
                return i + 1
        return 0

    def pobj(self, m):
        try:
            props = dict(m.properties)
        except Exception:
            props = {"<unreadable>": 1}
        return {"name": self.aname(getattr(m, "name", None)), "props": {k: self.acode(k, props.get(k)) for k in self.keys},
                "x": sum(1 for k in props if k not in self.keys)}

    def project(self):
        reg = [self.index(m) for m in self.pg.MATERIAL_LIST]
        iso = []
        for i in (1, 2):
            it = self.isos[i]
            iso.append({"mat": self.index(it.material), "basis": it.material_basis} if it is not None else {"mat": 0, "basis": "mass"})
        return {"heap": [self.pobj(m) for m in self.objs], "reg": reg, "iso": iso}

    def marg(self, o):
        if o["form"] == "name":
            return self.rname(o["name"])
        if o["form"] == "dict":
            return {"name": self.rname(o["name"]), **self.rprops(o["props"])}
        if o["form"] == "nameless":
            return dict(self.rprops(o["props"]))
        if o["form"] == "obj":
            return self.objs[o["h"] - 1]
        return (3, None, 1.5, ["x"])[self.step % 4]         # "other": not a string, not a Material

    def data(self, it):
        return [float(x) for x in it.data_raw[it.loading_key]]

    def ratio(self, old, new):
        try:
            rs = [n / o for n, o in zip(new, old)]
            if len(rs) != len(old) or any(abs(r - rs[0]) > 1e-9 * abs(rs[0]) for r in rs):
                return 0, 1
            f = Fraction(rs[0]).limit_denominator(500)
            if abs(float(f) - rs[0]) > 1e-9 * abs(rs[0]):
                return 0, 1
            return f.numerator, f.denominator
        except Exception:
            return 0, 1

    def apply(self, o, out0):
        """run one operation on the real objects; returns the outcome record (Out0 shape)"""
        from pygaps import Material
        from pygaps.core.baseisotherm import BaseIsotherm
        from pygaps.core.pointisotherm import PointIsotherm
        self.step += 1
        out = json.loads(json.dumps(out0))
        k = o["op"]
        it = self.isos.get(o["i"])
        old = self.data(it) if k in ("ConvertMaterial", "ReadLoading") else None
        new = None
        try:
            if k == "NewMaterial":
                m = Material(self.rname(o["name"]), store=o["store"], **self.rprops(o["props"]))
                out["h"] = self.index(m)
            elif k == "ListAppend":
                self.pg.MATERIAL_LIST.append(self.objs[o["h"] - 1])
            elif k == "Find":
                out["h"] = self.index(Material.find(self.marg(o)))
            elif k == "NewIsotherm":
                new_iso = PointIsotherm(pressure=[1.0, 2.0, 3.0], loading=[1.0, 2.0, 4.0], material=self.marg(o), adsorbate="nitrogen", temperature=77.0,
                                        material_basis="mass", material_unit="g", **UNITS)
                self.isos[o["i"]] = new_iso
                out["h"] = self.index(new_iso.material)
            elif k == "SetMaterial":
                it.material = self.marg(o)
                out["h"] = self.index(it.material)
            elif k == "EditProps":
                m = self.objs[o["h"] - 1]
                if o["form"] == "dict":
                    if o["v"]:
                        m.properties[o["key"]] = self.rval(o["key"], o["v"])
                    else:
                        m.properties.pop(o["key"], None)
                else:
                    setattr(m, o["key"], int(self.rval(o["key"], o["v"])) if o["v"] else 0)
            elif k == "GetProp":
                m = self.objs[o["h"] - 1]
                got = m.get_prop(o["key"]) if o["form"] == "get_prop" else getattr(m, o["key"]) if o["form"] == "attr" else getattr(m, o["key"])()
                if got is None:
                    out["res"] = "None"
                else:
                    out["res"], out["v"] = "value", self.acode(o["key"], got)
            elif k == "RoundTrip":
                d = it.to_dict()
                out["render"] = "string" if isinstance(d.get("material"), str) else "dict" if isinstance(d.get("material"), dict) else "?"
                if o["form"] == "ctor":
                    it2 = BaseIsotherm(**d)
                else:
                    it2 = PointIsotherm.from_isotherm(it, pressure=[1.0, 2.0], loading=[1.0, 2.0])
                p = self.pobj(it2.material)
                out["h"], out["name"], out["props"], out["x"] = self.known(it2.material), p["name"], p["props"], p["x"]
            elif k == "ConvertMaterial":
                it.convert_material(basis_to=o["basis"], unit_to=BASIS_UNIT[o["basis"]])
            elif k == "ReadLoading":
                new = [float(x) for x in it.loading(material_basis=o["basis"], material_unit=BASIS_UNIT[o["basis"]])]
            else:
                raise MachineryError("unknown operation " + k)
        except MachineryError:
            raise
        except Exception as e:
            out["res"] = exc_class(e)
        if old is not None:
            out["num"], out["den"] = self.ratio(old, new if new is not None else self.data(it))
        return out


def op_label(o):
    x = o["op"]
    if o["form"]:
        x += ":" + o["form"]
    return x


def adapt(o, pre):
    """Once the real objects have left the simulated behaviour (a deviation that is not there any more, a defect), the
    remaining operations of the behaviour are still applied where they make sense in the OBSERVED state (the guards of
    the actions of MatReg); every step is judged from its observed pre-state anyway.  Returns the operation or None."""
    n = len(pre["heap"])
    if o["h"] > n:
        return None
    k = o["op"]
    it = pre["iso"][o["i"] - 1] if o["i"] else None
    if k == "ListAppend":
        return o if o["h"] not in pre["reg"] else None
    if k in ("NewIsotherm", "SetMaterial"):
        return {**o, "op": "NewIsotherm" if it["mat"] == 0 else "SetMaterial"}
    if k == "RoundTrip":
        return o if it["mat"] else None
    if k in ("ConvertMaterial", "ReadLoading"):
        return o if it["mat"] and it["basis"] != o["basis"] else None
    return o


def behaviours(cfg, cfg_num, depth, seed, workers):
    d = tlc.scratch("x05-")
    try:
        res = tlc.simulate("MatRegMC", cfg, num=cfg_num, depth=depth, seed=seed, workers=workers, trace_prefix=os.path.join(d, "tr"), timeout=600)
        if res["errors"]:
            raise MachineryError("MatRegMC simulation: " + "; ".join(res["errors"][:3]))
        out = []
        for f in sorted(glob.glob(os.path.join(d, "tr_*"))):
            states = tlc.parse_trace_file(f)
            steps = []
            for st in states[1:]:
                last = parse_tla(st["last"])
                steps.append((last["op"], last["out"], {"heap": parse_tla(st["heap"]), "reg": parse_tla(st["reg"]), "iso": parse_tla(st["iso"])}))
            if steps:
                out.append(steps)
        return out
    finally:
        shutil.rmtree(d, ignore_errors=True)


def main(tier, seed):
    quiet_pygaps()
    import pygaps
    run = Run(PID, tier, seed, "model_checking")
    thorough = tier == "thorough"

    # ---- 1. exhaustive model checking
    runs = {}
    res = tlc.must_pass("MatRegMC", timeout=900, coverage=thorough)
    runs["MatRegMC"] = res
    if thorough:
        runs["MatRegMCTwoIsos"] = tlc.must_pass("MatRegMC", cfg="MatRegMCTwoIsos", timeout=1200)
        runs["MatRegMCThorough"] = tlc.must_pass("MatRegMC", cfg="MatRegMCThorough", timeout=1200)
    if res["distinct"] < 5000 or any(r["distinct"] < 30000 for k, r in runs.items() if k != "MatRegMC"):
        raise MachineryError("design-level state space collapsed (vacuous model)")
    if thorough:
        cov = {a: res["coverage"].get("MatReg!" + a) for a in ACTIONS}
        dead = [a for a, c in cov.items() if not c or c[1] == 0]
        if dead:
            raise MachineryError("TLC coverage: dead action(s) " + ", ".join(dead))
        run.set(tlc_action_coverage={a: {"distinct": c[0], "taken": c[1]} for a, c in cov.items()})
    run.set(states=sum(r["distinct"] for r in runs.values()), transitions=sum(r["states_generated"] for r in runs.values()),
            tlc_runs={k: {"distinct": r["distinct"], "generated": r["states_generated"], "depth": r["depth"]} for k, r in runs.items()},
            tlc_invariants=["TypeOK", "RefsResolve", "AllOperations = OnlyAppendBreaksUnique /\\ OnlyKnownDivergence /\\ RoundTripEqual /\\ NoActionAtADistance /\\ "
                            "ConversionUsesBoundObject /\\ SharedObjectSeesEdits (for every enabled operation)", "FindFirstMatch"])

    t_mc = time.time() - run.t0
    # ---- 2. behaviours from TLC, replayed on real objects
    alpha = tlc.oracle("MatRegOracle", [{"alphabet": True}], cfg="MatRegOracle", timeout=300)[0]
    out0 = {"res": "ok", "h": 0, "v": 0, "render": "", "name": "", "props": {k: 0 for k in alpha["keys"]}, "x": 0, "num": 0, "den": 1}
    # two alphabets: the wide one, and one where every object carries the same name (namesakes, duplicate registrations)
    behs = behaviours("MatRegSim", 100 if thorough else 30, 30 if thorough else 24, seed + 11, 8)
    nwide = len(behs)
    behs += behaviours("MatRegSimNamesakes", 60 if thorough else 25, 30 if thorough else 20, seed + 12, 8)
    records, meta, index = [], [], {}
    per_action = {a: 0 for a in ACTIONS}
    diverged = skipped = 0
    saved = list(pygaps.MATERIAL_LIST)
    try:
        for bi, steps in enumerate(behs):
            del pygaps.MATERIAL_LIST[:]
            w = World(alpha)
            pre = w.project()
            hist = []
            on_model = True
            for (op, model_out, model_state) in steps:
                if not on_model:
                    op = adapt(op, pre)
                    if op is None:
                        skipped += 1
                        continue
                out = w.apply(op, out0)
                post = w.project()
                hist.append(op_label(op))
                per_action[op["op"]] += 1
                rec = {"pre": pre, "op": op, "post": post, "out": out}
                key = json.dumps(rec, sort_keys=True)
                if key not in index:
                    index[key] = len(records)
                    records.append(rec)
                    meta.append({"behaviour": bi, "history": list(hist), "n": 0})
                meta[index[key]]["n"] += 1
                run.count(key, nontrivial=op["op"] not in ("NewMaterial",) or op["store"])
                if on_model and (post != model_state or out != model_out):
                    diverged += 1           # the real objects left the simulated behaviour: the rest is applied to the observed state (adapt)
                    on_model = False
                pre = post
    finally:
        pygaps.MATERIAL_LIST[:] = saved
    dead = [a for a, n in per_action.items() if n == 0]
    if dead:
        raise MachineryError("no replayed step for action(s) " + ", ".join(dead))

    t_replay = time.time() - run.t0 - t_mc
    # ---- 3. TLC judges every observed step
    answers = tlc.oracle("MatRegOracle", records, cfg="MatRegOracle", timeout=900, chunk=4000)
    t_oracle = time.time() - run.t0 - t_mc - t_replay
    run.set(seconds={"model_checking": round(t_mc, 1), "simulate_and_replay": round(t_replay, 1), "step_oracle": round(t_oracle, 1)})
    devs = {d: 0 for d in alpha["devs"]}
    predicted = {d: 0 for d in alpha["devs"]}
    absent = {}
    tags = {}
    for rec, m, a in zip(records, meta, answers):
        o = rec["op"]
        for t in a["tags"]:
            tags[t] = tags.get(t, 0) + m["n"]
        if a["devclass"] != "none":
            predicted[a["devclass"]] += m["n"]
        if not a["ok"]:
            clauses = sorted(a["violated"])
            run.violation({"site": SITE[o["op"]], "operation": op_label(o), "clause": "+".join(clauses) or "differs from the transcription",
                           "predicted_deviation_class": a["devclass"], "differs_in": "+".join(sorted(a["differs"]))},
                          {"history": m["history"], "op": o, "pre": rec["pre"], "observed_post": rec["post"], "observed_out": rec["out"],
                           "transcription_out": a["impl_out"], "transcription_registry": a["impl_reg"], "transcription_bindings": a["impl_iso"]})
        elif a["dev"] != "none":
            devs[a["dev"]] += m["n"]
        elif a["devclass"] != "none":
            absent[a["devclass"]] = absent.get(a["devclass"], 0) + m["n"]
        elif not a["as_impl"]:
            run.note(f"MODEL-DRIFT: {op_label(o)} satisfies every clause but differs from the transcription in {sorted(a['differs'])}")
    missing = [d for d, n in predicted.items() if n == 0]
    if missing and not run.violations:
        raise MachineryError("no replayed step in the deviation class(es) " + ", ".join(missing) + " (behaviours too short?)")
    for d, n in sorted(devs.items()):
        if n:
            run.note(f"OBSERVATION {d} ({n} step(s)): {REPRO[d]}")
    for d, n in sorted(absent.items()):
        run.note(f"deviation class {d}: {n} step(s) in the class satisfied the documentation (not observed on this tree)")
    run.add("traces_validated_against_impl", len(behs))
    run.set(behaviours_replayed=len(behs), steps_replayed=sum(per_action.values()), steps_judged_by_tlc=len(records), steps_per_action=per_action,
            behaviours_that_left_the_simulated_run=diverged, operations_skipped_after_leaving_it=skipped,
            situations_covered=dict(sorted(tags.items())), observations_named_deviations=devs, steps_in_deviation_classes=predicted, exhaustive=False,
            rule="TLC -simulate behaviours of MatRegMC (MatRegSim.cfg: 3 names, 3 property keys x 2 values, 3 bases, 2 isotherms, <= 6 objects), "
                 f"{nwide} behaviours of depth <= {30 if thorough else 24}, and {len(behs) - nwide} behaviours of MatRegSimNamesakes.cfg (one name, <= 4 objects); every step replayed on real objects and judged by MatRegOracle!StepVerdict from the "
                 "observed pre-state; non-trivial = every step except Material(...) without store; distinct = distinct (pre-state, operation, post-state, outcome)")
    def pick(pred):
        js = [j for j in range(len(records)) if pred(j)]
        return min(js, key=lambda j: len(meta[j]["history"])) if js else None
    for pred in (lambda j: answers[j]["dev"] == "RoundTripRebindsToRegisteredNamesake",
                 lambda j: "conversion while a namesake holds another value" in answers[j]["tags"],
                 lambda j: answers[j]["dev"] == "DictUpdatesRegistered" and any(x["mat"] == records[j]["post"]["iso"][records[j]["op"]["i"] - 1]["mat"]
                                                                                for k, x in enumerate(records[j]["pre"]["iso"]) if k != records[j]["op"]["i"] - 1)):
        i = pick(pred)
        if i is not None:
            run.sample({"history": meta[i]["history"], "op": {k: v for k, v in records[i]["op"].items() if v not in ("", 0, False)}, "pre": records[i]["pre"],
                        "post": records[i]["post"], "out": {k: v for k, v in records[i]["out"].items() if v not in ("", 0)},
                        "tlc_verdict": {k: answers[i][k] for k in ("ok", "violated", "dev", "as_impl", "tags")}})
    run.sample({"behaviour": [op_label(s[0]) for s in behs[0]]})
    run.assume("object identity is projected to allocation order: the harness learns of a Material object when an operation returns it, "
               "an isotherm is bound to it, or it appears in MATERIAL_LIST")
    run.assume("conversion factors are measured on the stored loading (g, cm3, mol: unit factors 1) and handed to TLC as a rational; "
               "the property values behind the value indices have pairwise distinct products and quotients")
    return run.finish()
