"""C07 - CSV, Excel and AIF round trips preserve the isotherm; what a format cannot carry is refused.

Same machinery as C06 (harness/codec_driver.py) with the by-value clauses of Codec!Judge (8 decimals
for data and model numbers, same value for metadata, identifier obliged when the content is equal)
and the per-format value domains of Codec!Domain deciding whether a refusal is acceptable."""
from ..codec_driver import run_codec, replay_file

PID = "C07"


def main(tier, seed):
    return run_codec(PID, ["csv", "xl", "aif"], tier, seed)


def replay(path):
    return replay_file(PID, path)
