"""C04 - read-only queries are pure and independent of the query history.

1. TLC checks spec/IsoCache exhaustively: over all histories of loading_at / pressure_at /
   spreading_pressure_at / convert on the cache state machine (implementation-shaped), the outcome
   class always equals the fresh-object outcome and no cache outlives its data.
2. Conformance: every ordered pair of queries (thorough; covering slice in quick) and TLC -simulate
   behaviours are replayed on a real PointIsotherm; after each step the same call is issued on a fresh
   equal object; outcome (class and value) must agree with the fresh object and with the
   specification's FreshOutcome, and the observable state (id, labels, data, properties) must not move.
3. Breadth (harness/purity.py): every public analysis / export / fit / IAST entry point is run twice on
   fixture isotherms; observable snapshots before/after and first-vs-second outcomes are recorded and
   validated by spec/PureTrace.tla.
"""
import glob
import os
import random
import shutil

import numpy

from ..common import Run, exc_class, MachineryError, quiet_pygaps
from .. import tlc
from ..iso_common import make_point, snapshot, labels_of

PID = "C04"
BASE = {"pm": "absolute", "pu": "bar", "lb": "molar", "lu": "mmol", "mb": "mass", "mu": "g", "tu": "K"}
P = [0.1, 0.25, 0.5, 0.9, 1.4, 2.0, 1.7, 1.2, 0.8, 0.45, 0.2, 0.12]
L = [1.0, 2.1, 3.3, 4.2, 4.9, 5.4, 5.3, 5.0, 4.5, 3.6, 2.4, 1.5]
BR = [0] * 6 + [1] * 6
FILLNUM = 7.5


def build(data=None):
    p, l = (P, L) if data is None else data
    return make_point(BASE if data is None or len(data) < 3 else data[2], "nitrogen", "verif_mat", 77.344, p, l, branch=BR,
                      extra={"enthalpy": [float(i) for i in range(12)]}, meta={"operator": "verif"})


def build_short():
    """a branch too short for some interpolation kinds (two desorption points, three adsorption points): building the
    interpolator is itself refused there, so the refusal paths of the caches are part of the histories"""
    return make_point(BASE, "nitrogen", "verif_mat", 77.344, [0.2, 0.8, 1.6, 1.1, 0.4], [1.5, 3.9, 5.2, 4.8, 2.6], branch=[0, 0, 0, 1, 1],
                      extra={"enthalpy": [float(i) for i in range(5)]}, meta={"operator": "verif"})


def clone(iso):
    """a fresh, equal isotherm built from the exported dictionary and the data"""
    import pygaps
    return pygaps.PointIsotherm(isotherm_data=iso.data_raw.copy(), pressure_key=iso.pressure_key, loading_key=iso.loading_key, **iso.to_dict())


def xval(iso, q):
    col = iso.pressure_key if q["op"] in ("LA", "SP") else iso.loading_key
    d = iso.data_raw
    v = numpy.sort(d.loc[d["branch"] == (0 if q["b"] == "ads" else 1), col].to_numpy(dtype=float))
    mid = 0.5 * (v[2] + v[3]) if len(v) >= 4 else 0.5 * (v[0] + v[-1])
    return {"below": v[0] * 0.5, "first": v[0], "interior": mid, "last": v[-1], "above": v[-1] * 1.5}[q["x"]]


FILL_ZERO = False      # toggled by main(): a fill rule of exactly 0 is a fill rule too


def fillarg(f):
    return {"nofill": None, "num": 0.0 if FILL_ZERO else FILLNUM, "extrap": "extrapolate"}[f]


def do_query(iso, q):
    """returns (class, value-or-exception-class)"""
    if q["op"] == "CONVERT":
        # any permanent conversion must drop both cached interpolators; rotate over the kinds
        kind = q.get("kind", "pressure")
        if kind == "pressure":
            iso.convert_pressure(unit_to="kPa" if iso.pressure_unit == "bar" else "bar")
        elif kind == "loading":
            iso.convert_loading(unit_to="mol" if iso.loading_unit == "mmol" else "mmol")
        elif kind == "material":
            iso.convert_material(unit_to="kg" if iso.material_unit == "g" else "g")
        elif kind == "loading_basis":
            iso.convert_loading(basis_to="mass" if iso.loading_basis == "molar" else "molar", unit_to="mg" if iso.loading_basis == "molar" else "mmol")
        else:
            iso.convert(pressure_unit="kPa" if iso.pressure_unit == "bar" else "bar", loading_unit="mol" if iso.loading_unit == "mmol" else "mmol")
        return ("none", None)
    x = xval(iso, q)
    try:
        if q["op"] == "LA":
            r = iso.loading_at(x, branch=q["b"], interpolation_type=q["k"], interp_fill=fillarg(q["f"]))
        elif q["op"] == "PA":
            r = iso.pressure_at(x, branch=q["b"], interpolation_type=q["k"], interp_fill=fillarg(q["f"]))
        else:
            r = iso.spreading_pressure_at(x, branch=q["b"], interp_fill=fillarg(q["f"]))
    except Exception as e:
        return ("refused", exc_class(e))
    r = float(r)
    if q["f"] == "num" and q["op"] != "SP" and r == (0.0 if FILL_ZERO else FILLNUM):
        return ("fill", r)
    return ("value", r)


def obs(iso):
    s = snapshot(iso)
    s["pressure"] = s["pressure"].tolist()
    s["loading"] = s["loading"].tolist()
    try:
        s["iso_id"] = iso.iso_id
    except Exception as e:
        s["iso_id"] = "exception:" + exc_class(e)
    return s


def all_queries():
    qs = []
    for op in ("LA", "PA"):
        for b in ("ads", "des"):
            for k in ("linear", "nearest", "cubic"):
                for f in ("nofill", "num", "extrap"):
                    for x in ("below", "first", "interior", "last", "above"):
                        qs.append({"op": op, "b": b, "k": k, "f": f, "x": x})
    for b in ("ads", "des"):
        for f in ("nofill", "num", "extrap"):
            for x in ("below", "first", "interior", "last", "above"):
                qs.append({"op": "SP", "b": b, "k": "linear", "f": f, "x": x})
    return qs


def qname(q):
    if q["op"] == "CONVERT":
        return "CONVERT:" + q.get("kind", "pressure")
    return f"{q['op']}({q['b']},{q['k']},{q['f']},{q['x']})"


def step_check(run, iso, q, history, expected_class):
    """one step of a history on `iso`; compare with a fresh equal object and with the specification"""
    if q["op"] == "CONVERT":
        do_query(iso, q)
        return
    fresh = clone(iso)
    before = obs(iso)
    got = do_query(iso, q)
    after = obs(iso)
    ref = do_query(fresh, q)
    sig = {"site": {"LA": "loading_at", "PA": "pressure_at", "SP": "spreading_pressure_at"}[q["op"]], "query_x": q["x"], "query_fill": q["f"],
           "after": history[-1]["op"] if history else "nothing"}
    detail = {"query": q, "history": [qname(h) for h in history], "observed": got, "fresh_object": ref}
    if before != after:
        changed = [k for k in before if before[k] != after[k]]
        run.violation({**sig, "observed": "query changed the observable state", "changed": "+".join(changed)}, detail)
    same = got[0] == ref[0] and (got[1] == ref[1] if got[0] == "refused" else abs(got[1] - ref[1]) <= 1e-12 * max(1.0, abs(ref[1])))
    if not same:
        run.violation({**sig, "observed": "outcome depends on the query history", "history_outcome": got[0] if got[0] != "refused" else got[1],
                       "fresh_outcome": ref[0] if ref[0] != "refused" else ref[1]}, detail)
    if expected_class is not None and got[0] != expected_class and ref[0] != expected_class:
        run.violation({**sig, "observed": "outcome class differs from the specification of a fresh isotherm", "expected": expected_class, "got": got[0]}, detail)


def main(tier, seed):
    quiet_pygaps()
    run = Run(PID, tier, seed, "model_checking")
    rng = random.Random(seed)
    thorough = tier == "thorough"
    from ..units_common import custom_material
    custom_material()

    res = tlc.must_pass("IsoCache", timeout=900)
    run.set(states=res["distinct"], transitions=res["states_generated"], tlc_invariants=["HistoryIndependent", "NeverStale"])

    # the specification's outcome table (via TLC): replay of behaviours carries `fresh` per step; for pairs
    # we take it from a one-step simulation table computed below
    qs = all_queries()
    table = {qname(q): a["fresh"] for q, a in zip(qs, tlc.oracle("IsoCacheOracle", qs, cfg="IsoCacheOracle"))}

    # ---- TLC behaviours
    d = tlc.scratch("c04-")
    traces = 0
    try:
        r = tlc.simulate("IsoCache", "IsoCacheSim", num=(50 if thorough else 8), depth=10, seed=seed + 3, workers=8, trace_prefix=os.path.join(d, "tr"), timeout=600)
        if r["errors"]:
            raise MachineryError("IsoCache simulation: " + "; ".join(r["errors"][:2]))
        for f in sorted(glob.glob(os.path.join(d, "tr_*"))):
            states = tlc.parse_trace_file(f)
            iso = build()
            hist = []
            for st in states[1:]:
                q = tlc.parse_flat_record(st["lastq"])
                if q["op"] == "CONVERT":
                    q["kind"] = ("pressure", "loading", "material", "loading_basis", "combined")[(traces + len(hist)) % 5]
                exp = st["fresh"].strip().strip('"')
                if q["op"] != "CONVERT" and table[qname(q)] != exp:
                    raise MachineryError("oracle table and simulated behaviour disagree on " + qname(q))
                run.count(("tlc", traces, len(hist)), nontrivial=bool(hist))
                step_check(run, iso, q, hist, None if q["op"] == "CONVERT" else exp)
                hist.append(q)
            traces += 1
            if traces <= 1:
                run.sample({"tlc_behaviour": [qname(h) for h in hist]})
    finally:
        shutil.rmtree(d, ignore_errors=True)
    run.add("traces_validated_against_impl", traces)
    run.set(tlc_behaviours_replayed=traces)

    # ---- all ordered pairs (second query judged), plus pairs with a conversion in between
    npairs = 0

    def pair(q1, q2):
        nonlocal npairs
        iso = build()
        do_query(iso, q1)
        step_check(run, iso, q2, [q1], table.get(qname(q2)))
        run.count(("pair", qname(q1), qname(q2)))
        npairs += 1

    if thorough:
        for q1 in qs:
            for q2 in qs:
                pair(q1, q2)
    else:
        # covering slice: a cache defect shows when the first query builds an interpolator whose key differs
        # from the second query's in ONE component (or when spreading_pressure_at built it): all such pairs
        # for second queries outside the data range or at a data point, plus seeded random pairs
        def neighbours(q2):
            out = []
            for f in ("nofill", "num", "extrap"):
                for b in ("ads", "des"):
                    for k in ("linear", "nearest", "cubic"):
                        diff = (f != q2["f"]) + (b != q2["b"]) + (k != q2["k"])
                        if diff == 1:
                            for op in ("LA", "PA"):
                                out.append({"op": op, "b": b, "k": k, "f": f, "x": "interior"})
                    out.append({"op": "SP", "b": b, "k": "linear", "f": f, "x": "last"})
                    out.append({"op": "SP", "b": b, "k": "linear", "f": f, "x": "above"})
            return out
        for q2 in qs:
            if q2["x"] in ("below", "above", "first"):
                for q1 in neighbours(q2):
                    pair(q1, q2)
        for _ in range(600):
            pair(rng.choice(qs), rng.choice(qs))
        # the same with the numeric fill rule being exactly 0 (falsy)
        global FILL_ZERO
        FILL_ZERO = True
        try:
            for q2 in qs:
                if q2["f"] == "num" and q2["x"] in ("below", "above", "interior"):
                    pair(rng.choice(qs), q2)
        finally:
            FILL_ZERO = False
    # ---- short branches (spec/IsoCache.tla HistoryIndependent judged against a fresh equal object): every query repeated
    # unchanged (a refused construction must not leave anything behind that the repetition finds), every query after its
    # one-component neighbours, and seeded pairs
    nshort = 0
    for q2 in qs:
        firsts = [q2] + [q1 for q1 in qs if q1["op"] == q2["op"] and q1["x"] == "interior"
                         and (q1["b"] != q2["b"]) + (q1["k"] != q2["k"]) + (q1["f"] != q2["f"]) == 1]
        if not thorough:
            firsts = [q2] + rng.sample(firsts[1:], min(2, len(firsts) - 1))
        for q1 in firsts + [rng.choice(qs)]:
            iso = build_short()
            do_query(iso, q1)
            step_check(run, iso, q2, [q1], None)
            run.count(("short-pair", qname(q1), qname(q2)))
            nshort += 1
    run.add("traces_validated_against_impl", nshort)
    run.set(query_pairs_on_short_branches=nshort)

    kinds = ("pressure", "loading", "material", "loading_basis", "combined")
    for q1 in (qs if thorough else rng.sample(qs, 40)):
        for j, q2 in enumerate(rng.sample(qs, 6) + [dict(q1, x="interior"), dict(q1, x="last")]):
            # (the last two repeat the first query's key: a cache that survived the conversion would be hit)
            cv = {"op": "CONVERT", "kind": kinds[(j + npairs) % len(kinds)]}
            iso = build()
            do_query(iso, q1)
            do_query(iso, cv)
            step_check(run, iso, q2, [q1, cv], table.get(qname(q2)))
            run.count(("pair-convert", qname(q1), cv["kind"], qname(q2)))
            npairs += 1
    run.add("traces_validated_against_impl", npairs)
    run.set(query_pairs=npairs, query_alphabet=len(qs))

    # ---- breadth: analyses, exports, fits, IAST
    from .. import purity
    purity.run_breadth(run, tier, seed)

    run.set(exhaustive=bool(thorough),
            rule="histories over the query alphabet (loading_at / pressure_at x branch x kind x fill x query-point class; spreading_pressure_at x branch x fill x class; "
                 "convert): " + ("all" if thorough else "covering slice of") + " ordered pairs + TLC-simulated behaviours of depth 10, each step compared with the same call on a fresh equal object; "
                 "breadth: every analysis/export/fit/IAST entry point run twice with observable snapshots; non-trivial = a step preceded by at least one other query; distinct = distinct (history, query)")
    run.assume("observable state = iso_id, unit labels, data_raw by value, metadata, adsorbate and material properties")
    return run.finish()
