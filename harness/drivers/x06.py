"""X06 (growth beyond the listed properties) - constructor argument handling of the three isotherm classes.

spec/Ctor.tla states, as a decision table over ABSTRACT invocations (how material / adsorbate / temperature are
given, the class of every unit label, the form of the data arguments, the branch argument, the model argument,
extra keyword metadata), what BaseIsotherm / PointIsotherm / ModelIsotherm and pygaps.modelling.model_iso promise
(Must / May / Allowed* / SpecJudge: docstrings and docs/manual/isotherm.rst) and, separately, what the code does in
its own order of checks (ImplBase / ImplPoint / ImplModel / ImplMiso) with every place where it leaves the
prescription as a NAMED deviation disjunct.  TLC compares the two over the whole product (CtorMC: 114 954
invocations, one action per public operation, DeviationsExact).  This driver materialises invocations (all of them
in thorough, a seeded sample plus every small family in quick), runs the REAL constructors (the model classes' fit
replaced by a recorder), projects what came back and spec/CtorOracle (Ctor!Verdict) decides:
ok / observation (a named deviation, behaving exactly as transcribed) / violation (names the failing clauses).
"""
import importlib
import itertools
import logging
import random
import re

from ..common import Run, exc_class, MachineryError, quiet_pygaps
from .. import tlc

PID = "X06"
OM, NA, N, B = "omitted", "na", "none", "bogus"

# ------------------------------------------------------------------ the abstract product (mirror of Ctor.tla; TLC re-checks membership)
MVALS = ["kw", "sh", "both", "missing", "kwfalsy", "shfalsy", "obj"]
AVALS = MVALS + ["unknown"]
TVALS = ["kw", "sh", "both", "missing", "kw0", "sh0", "str", "badstr"]
UDIMS = dict(pm=[OM, "absolute", "relative", B, N], pu=[OM, "kPa", "mmol", N],
             lb=[OM, "molar", "mass", "volume_gas", "fraction", "volume", B, N], lu=[OM, "mmol", "g", "cm3", B, N],
             mb=[OM, "mass", "volume", B, N], mu=[OM, "g", "cm3", B, N], tu=[OM, "K", "degC", B])
PDATA = ["none", "pl", "ponly", "lonly", "unequal", "empty", "scalar", "df", "df_nokeys", "df_nolkey", "df_badkey", "df_pl", "df_branchcol", "notframe"]
MDATA = PDATA + ["df_adsonly"]
PBRANCH = [OM, "guess", "ads", "des", "other", N, "list_ok", "list_bad"]
MBRANCH = [OM, "ads", "des", "other", N]
MODELS = ["missing", "name", "unknown", "list", "guess", "instance"]
MISO_MODELS = ["missing", "empty", "emptylist", "name", "unknown", "list", "list_unknown", "guess", "instance"]
METAS = ["none", "user", "reserved", "control"]
UGIVEN = dict(pm="absolute", pu="kPa", lb="mass", lu="g", mb="volume", mu="cm3", tu="degC")
UOMITTED = {k: OM for k in UGIVEN}
USMALL = [UGIVEN, UOMITTED, {**UGIVEN, "lu": B}]


def inv(cls, m, a, t, u, data, branch, model, meta):
    return dict(cls=cls, m=m, a=a, t=t, **u, data=data, branch=branch, model=model, meta=meta)


def families():
    fam = {}
    for c in ("base", "point", "model"):
        fam[f"required:{c}"] = [inv(c, m, a, t, u, NA if c == "base" else "pl", NA if c == "base" else OM, "name" if c == "model" else NA, "none")
                                for m in MVALS for a in AVALS for t in TVALS for u in USMALL]
    fam["units:base"] = [inv("base", "kw", "kw", "kw", dict(zip(UDIMS, v)), NA, NA, NA, "none") for v in itertools.product(*UDIMS.values())]
    fam["meta:base"] = [inv("base", "kw", "kw", t, u, NA, NA, NA, meta) for t in ("kw", "missing") for u in USMALL for meta in METAS]
    fam["data:point"] = [inv("point", r[0], r[1], r[2], u, d, b, NA, meta)
                         for r in (("kw", "kw", "kw"), ("sh", "sh", "sh"), ("kw", "kw", "missing")) for u in USMALL for d in PDATA for b in PBRANCH for meta in METAS]
    fam["data:model"] = [inv("model", "kw", "kw", t, u, d, b, md, meta)
                         for t in ("kw", "missing") for u in USMALL for d in MDATA for b in MBRANCH for md in MODELS for meta in METAS]
    fam["model_iso"] = [inv("miso", "kw", "kw", "kw", UGIVEN, d, b, md, "user") for d in ("iso_both", "iso_adsonly") for b in MBRANCH for md in MISO_MODELS]
    seen = set()        # the families overlap in a few plain invocations: keep each abstract invocation once (TLC counts distinct states)
    for name in fam:
        keep = []
        for i in fam[name]:
            k = tuple(sorted(i.items()))
            if k not in seen:
                seen.add(k)
                keep.append(i)
        fam[name] = keep
    return fam


# ------------------------------------------------------------------ fixtures
P = [1.0, 2.0, 3.0, 4.0, 3.0, 2.0]
L = [1.0, 2.0, 3.0, 4.0, 3.5, 2.5]
GUESSED = [0, 0, 0, 0, 1, 1]
GIVEN = [0, 0, 1, 1, 1, 1]
COLUMN = [0, 1, 1, 0, 0, 1]
NINES = [9.0, 9.0, 9.0]
LABEL_KW = dict(pm="pressure_mode", pu="pressure_unit", lb="loading_basis", lu="loading_unit", mb="material_basis", mu="material_unit", tu="temperature_unit")
KW_LABEL = {v: k for k, v in LABEL_KW.items()}
VOCAB = {"absolute", "relative", "relative%", "kPa", "bar", "mmol", "g", "cm3", "molar", "mass", "volume_gas", "volume_liquid", "fraction", "percent", "volume", "K", B}

CLAUSES = [
    (r"Isotherm MUST have", "required"), (r"temperature must be a number", "temperature_value"), (r"Mode selected for pressure", "pm"), (r"Basis selected for loading", "lb"),
    (r"Basis selected for material", "mb"), (r"Unit selected for pressure", "pu"), (r"Unit selected for loading", "lu"),
    (r"Unit selected for material", "mu"), (r"Unit selected for temperature", "tu"),
    (r"Pass either the isotherm data|Pass isotherm data to fit", "data_missing"), (r"make sure both are specified", "data_incomplete"),
    (r"arrays are not equal", "data_unequal"), (r"Pass loading_key and pressure_key", "keys_missing"), (r"Could not find columns", "key_not_column"),
    (r"branch parameter must be|branch must be singular|Bad branch specification", "branch_value"), (r"Length of values", "branch_length"),
    (r"does not contain any points", "branch_empty"), (r"Specify a model to fit|Provide a model name", "model_missing"),
    (r"not an option\. Viable models|Not all models correspond", "model_unknown"), (r"Could not figure out the list of models", "model_type"),
]


def clause_of(msg):
    for rx, name in CLAUSES:
        if re.search(rx, msg):
            return name
    return "unrecognised"


class Capture(logging.Handler):
    def __init__(self):
        super().__init__(level=logging.DEBUG)
        self.msgs = []

    def emit(self, record):
        self.msgs.append(record.getMessage())


class Bench:
    """The real classes with the fit replaced by a recorder and the pygaps logger captured."""

    def __init__(self):
        import pygaps.logging  # noqa: F401
        import pygaps.modelling as pgm
        import pygaps.graphing.model_graphs as mg
        from pygaps.modelling.base_model import IsothermBaseModel
        self.pgm = pgm
        self.calls = []
        self.cap = Capture()
        self.log = logging.getLogger("pygaps")
        self._saved_log = (list(self.log.handlers), self.log.level, self.log.propagate)
        self.log.handlers = [self.cap]
        self.log.setLevel(logging.WARNING)
        self.log.propagate = False
        bench = self

        def fit(self_m, pressure, loading, param_guess, optimization_params=None, verbose=False):
            bench.calls.append((self_m.name, [float(x) for x in pressure]))
            for k in self_m.params:
                self_m.params[k] = float(param_guess[k]) if param_guess and k in param_guess else 1.0
            self_m.rmse = {"Henry": 0.5, "Langmuir": 0.2}.get(self_m.name, 1.0)

        self._saved = []
        classes = [IsothermBaseModel] + [getattr(importlib.import_module(f"pygaps.modelling.{m.lower()}"), m) for m in pgm._MODELS]
        for c in classes:
            if "fit" in c.__dict__:
                self._saved.append((c, "fit", c.__dict__["fit"]))
                setattr(c, "fit", fit)
        if not self._saved:
            raise MachineryError("no fit method found to interpose on")
        self._saved.append((mg, "plot_model_guesses", mg.plot_model_guesses))
        mg.plot_model_guesses = lambda *a, **k: None

    def close(self):
        for o, n, f in self._saved:
            setattr(o, n, f)
        self.log.handlers, lvl, self.log.propagate = self._saved_log[0], self._saved_log[1], self._saved_log[2]
        self.log.setLevel(lvl)

    def reset(self):
        self.calls = []
        self.cap.msgs = []


def unit_value(x):
    return None if x == N else "°C" if x == "degC" else x


def label_enc(x):
    if x is None:
        return N
    if x == "°C":
        return "degC"
    if isinstance(x, str) and x in VOCAB:
        return x
    return "other:" + repr(x)[:30]


def build_kwargs(i, bench):
    """The concrete keyword arguments of an abstract invocation, and the source text of a reproduction."""
    import pandas
    import pygaps
    kw = {}
    m, a, t = i["m"], i["a"], i["t"]
    if m in ("kw", "both"):
        kw["material"] = "mat_kw"
    if m in ("sh", "both"):
        kw["m"] = "mat_sh"
    if m == "kwfalsy":
        kw["material"] = ""
    if m == "shfalsy":
        kw["m"] = ""
    if m == "obj":
        kw["material"] = pygaps.Material("mat_obj")
    if a in ("kw", "both"):
        kw["adsorbate"] = "nitrogen"
    if a in ("sh", "both"):
        kw["a"] = "argon"
    if a == "kwfalsy":
        kw["adsorbate"] = ""
    if a == "shfalsy":
        kw["a"] = ""
    if a == "obj":
        kw["adsorbate"] = pygaps.Adsorbate.find("methane")
    if a == "unknown":
        kw["adsorbate"] = "unobtainium_x06"
    if t in ("kw", "both"):
        kw["temperature"] = 77.0
    if t in ("sh", "both"):
        kw["t"] = 88.0
    if t == "kw0":
        kw["temperature"] = 0
    if t == "sh0":
        kw["t"] = 0
    if t == "str":
        kw["temperature"] = "91.5"
    if t == "badstr":
        kw["temperature"] = "seventy"
    for k, name in LABEL_KW.items():
        if i[k] != OM:
            kw[name] = unit_value(i[k])
    meta = i["meta"]
    if meta == "user":
        kw.update(user="John", DOI="10.0/x")
    elif meta == "reserved":
        kw.update(_material="zz", data_raw=3, other_keys=["z"])
    elif meta == "control":
        kw.update(verbose=True, plot_fit=False)
    if i["cls"] == "base":
        return kw
    d = i["data"]
    n = 6
    if d == "pl":
        kw.update(pressure=list(P), loading=list(L))
    elif d == "ponly":
        kw.update(pressure=list(P))
    elif d == "lonly":
        kw.update(loading=list(L))
    elif d == "unequal":
        kw.update(pressure=list(P), loading=list(L[:3]))
    elif d == "empty":
        kw.update(pressure=[], loading=[])
        n = 0
    elif d == "scalar":
        kw.update(pressure=1.0, loading=2.0)
    elif d.startswith("df"):
        cols = {"pressure": list(P), "loading": list(L), "enthalpy": [15.0] * 6}
        if d == "df_adsonly":
            cols = {k: v[:4] for k, v in cols.items()}
        if d == "df_branchcol":
            cols["branch"] = list(COLUMN)
        kw["isotherm_data"] = pandas.DataFrame(cols)
        if d != "df_nokeys":
            kw["pressure_key"] = "pressure"
        if d not in ("df_nokeys", "df_nolkey"):
            kw["loading_key"] = "uptake" if d == "df_badkey" else "loading"
        if d == "df_pl":
            kw.update(pressure=list(NINES), loading=list(NINES))
    elif d == "notframe":
        kw.update(isotherm_data={"pressure": list(P), "loading": list(L)}, pressure_key="pressure", loading_key="loading")
    br = i["branch"]
    if br in ("guess", "ads", "des"):
        kw["branch"] = br
    elif br == "other":
        kw["branch"] = "both"
    elif br == N:
        kw["branch"] = None
    elif br == "list_ok":
        kw["branch"] = [bool(x) for x in GIVEN[:n]]
    elif br == "list_bad":
        kw["branch"] = [False, True, False]
    if i["cls"] == "model":
        md = i["model"]
        if md != "missing":
            kw["model"] = {"name": "Henry", "unknown": "NoSuchModel", "list": ["Henry", "Langmuir"], "guess": "guess"}.get(md) or bench.pgm.get_isotherm_model("Henry")
    return kw


RAISED = dict(labels={k: NA for k in UGIVEN}, warned=[], depwarn=NA, mval=NA, aval=NA, tval=NA, awarn=NA, marks=NA, src=NA, model=NA, blabel=NA,
              fitdata=NA, nfit=NA, meta=[])


def fit_class(calls, parts):
    if not calls:
        return "nofit", "0"
    kinds = set()
    for _name, p in calls:
        kinds.add(next((k for k, v in parts.items() if p == v), "other"))
    return (kinds.pop() if len(kinds) == 1 else "mixed"), ("1" if len(calls) == 1 else "many")


def project(i, bench, iso, kw, instance):
    """Abstract state of the object that came back (Ctor.tla result record)."""
    msgs = bench.cap.msgs
    warned = sorted({KW_LABEL[mm.group(1)] for mm in (re.search(r"'(\w+)' was not specified", s) for s in msgs) if mm and mm.group(1) in KW_LABEL})
    o = dict(out="ok", exc="none", clause=NA, labels={k: label_enc(iso.units[name]) for k, name in LABEL_KW.items()}, warned=warned,
             depwarn="yes" if any("deprecated" in s for s in msgs) else "no", awarn="yes" if any("not in internal list" in s for s in msgs) else "no",
             meta=sorted(str(k) for k in iso.properties), mval=NA, aval=NA, tval=NA, marks=NA, src=NA, model=NA, blabel=NA, fitdata=NA, nfit=NA)
    if i["cls"] != "miso":
        o["mval"] = {"mat_kw": "kw", "mat_sh": "sh", "": "empty", "mat_obj": "obj"}.get(iso.material.name, "other")
        o["aval"] = {"nitrogen": "kw", "argon": "sh", "": "empty", "methane": "obj", "unobtainium_x06": "unknown"}.get(str(iso.adsorbate), "other")
        o["tval"] = {77.0: "kw", 88.0: "sh", 0.0: "zero", 91.5: "str"}.get(float(iso._temperature), "other")
    if i["cls"] == "point":
        d = iso.data_raw
        raw = d["branch"].tolist()
        if len(raw) == 0:
            o["marks"] = "emptymarks"
        elif all(x is None for x in raw):
            o["marks"] = "nonemarks"
        else:
            try:
                marks = [int(bool(x)) for x in raw]
            except Exception:
                marks = None
            o["marks"] = ("guessed" if marks == GUESSED else "ads" if marks == [0] * len(raw) else "des" if marks == [1] * len(raw)
                          else "given" if marks == GIVEN else "column" if marks == COLUMN else "listbad" if marks == [0, 1, 0] else "other")
        pr = [float(x) for x in d[iso.pressure_key].tolist()]
        arrays = kw.get("pressure") if isinstance(kw.get("pressure"), list) else None
        frame = kw["isotherm_data"]["pressure"].tolist() if i["data"].startswith("df") else None
        o["src"] = ("frame" if frame is not None and pr == frame else "arrays" if arrays is not None and pr == arrays
                    else "nanrows" if pr and all(x != x for x in pr) else "other")
    if i["cls"] in ("model", "miso"):
        o["model"] = "instance" if instance is not None and iso.model is instance else {"Henry": "named", "Langmuir": "best"}.get(iso.model.name, "other")
        b = iso.branch
        o["blabel"] = N if b is None else b if b in ("ads", "des") else "other"
        if i["data"] == "df_branchcol":
            parts = {"ads": [p for p, c in zip(P, COLUMN) if c == 0], "des": [p for p, c in zip(P, COLUMN) if c == 1]}
        elif i["data"] in ("df_adsonly", "iso_adsonly"):
            parts = {"ads": P[:4]}
        else:
            parts = {"ads": P[:4], "des": P[4:]}
        if i["data"] in ("pl", "iso_both") or i["data"].startswith("df"):
            parts["all"] = list(P) if i["data"] not in ("df_adsonly",) else P[:4]
        if i["data"] == "df_pl":
            parts["arrays"] = list(NINES)
        o["fitdata"], o["nfit"] = fit_class(bench.calls, parts)
    return o


def run_one(i, bench, templates):
    import pygaps
    from pygaps.core.baseisotherm import BaseIsotherm
    bench.reset()
    instance = None
    if i["cls"] == "miso":
        md = i["model"]
        kw = {}
        if md != "missing":
            kw["model"] = {"empty": "", "emptylist": [], "name": "Henry", "unknown": "NoSuchModel", "list": ["Henry", "Langmuir"],
                           "list_unknown": ["Henry", "NoSuchModel"], "guess": "guess"}.get(md)
            if md == "instance":
                kw["model"] = bench.pgm.get_isotherm_model("Henry")
        if i["branch"] != OM:
            kw["branch"] = {"other": "both", N: None}.get(i["branch"], i["branch"])
        instance = kw["model"] if md == "instance" else None
        bench.reset()

        def call():
            return bench.pgm.model_iso(templates[i["data"]], **kw)
    else:
        kw = build_kwargs(i, bench)
        if i["cls"] == "model" and i["model"] == "instance":
            instance = kw["model"]
        bench.reset()
        cls = {"base": BaseIsotherm, "point": pygaps.PointIsotherm, "model": pygaps.ModelIsotherm}[i["cls"]]

        def call():
            return cls(**kw)
    try:
        iso = call()
    except Exception as e:  # every exception class is an observation the oracle judges
        ec = exc_class(e)
        return dict(RAISED, out="raised", exc=ec, clause=clause_of(str(e)) if ec == "ParameterError" else NA, labels=dict(RAISED["labels"])), kw, str(e)[:160]
    return project(i, bench, iso, kw, instance), kw, ""


REPRO = {
    "DShorthandFalsy": "BaseIsotherm(m='c', a='nitrogen', t=0, temperature_unit='°C')  -> ParameterError 'Isotherm MUST have ... temperature' (the shorthands are taken with `if data:`; temperature=0 works)",
    "DNoneTestEq": "BaseIsotherm(material='c', adsorbate=pygaps.Adsorbate.find('nitrogen'), temperature=77)  -> AttributeError: 'NoneType' object has no attribute 'lower' (`None in [material, adsorbate, temperature]` calls Adsorbate.__eq__(None))",
    "DTempValueError": "BaseIsotherm(material='c', adsorbate='nitrogen', temperature='seventy')  -> ValueError from float(), not ParameterError",
    "DModeNotString": "BaseIsotherm(material='c', adsorbate='nitrogen', temperature=77, pressure_mode=None)  -> AttributeError ('NoneType' has no 'startswith'), not ParameterError",
    "DMaterialUnitMessage": "BaseIsotherm(material='c', adsorbate='nitrogen', temperature=77, loading_basis='volume_gas', loading_unit='cm3', material_unit='bogus')  -> KeyError 'volume_gas' (the refusal message indexes _MATERIAL_MODE with the LOADING basis)",
    "DDataNotSized": "PointIsotherm(pressure=1.0, loading=2.0, m='c', a='nitrogen', t=77)  -> TypeError (len of a float), not ParameterError; same in ModelIsotherm",
    "DDataNotFrame": "PointIsotherm(isotherm_data={'pressure': [...], 'loading': [...]}, pressure_key='pressure', loading_key='loading', ...)  -> AttributeError ('dict' has no 'columns'); same in ModelIsotherm",
    "DEmptyGuess": "PointIsotherm(pressure=[], loading=[], m='c', a='nitrogen', t=77)  -> ValueError 'attempt to get argmax of an empty sequence' (branch='ads' constructs an empty isotherm)",
    "DBranchNone": "PointIsotherm(pressure=[1,2], loading=[1,2], branch=None, ...)  -> accepted, every branch mark is None (neither adsorption nor desorption points)",
    "DEmptyBranchList": "PointIsotherm(pressure=[], loading=[], branch=[False, True, False], ...)  -> accepted: three rows of NaN pressure/loading carrying the marks (pandas extends an empty frame)",
    "DEmptyData": "ModelIsotherm(pressure=[], loading=[], model='Henry', ...)  -> ValueError 'min() iterable argument is empty'",
    "DModelBranchUnchecked": "ModelIsotherm(pressure=[1,2], loading=[1,2], model='Henry', branch='both', ...)  -> accepted with branch='both' (only the isotherm_data path checks the branch); same around a ready-made model",
    "DModelKeyError": "ModelIsotherm(isotherm_data=df, pressure_key='pressure', loading_key='uptake', model='Henry', ...)  -> KeyError 'uptake' (PointIsotherm answers ParameterError 'Could not find columns')",
    "DModelList": "ModelIsotherm(pressure=[1,2], loading=[1,2], model=['Henry', 'Langmuir'], ...)  -> AttributeError: 'list' object has no attribute 'lower' (the signature announces List[str])",
    "DModelInstanceData": "ModelIsotherm(pressure=[1,2], loading=[1,2], model=<Henry instance>, ...)  -> AttributeError: 'Henry' object has no attribute 'lower'",
    "DMisoBranchNone": "pygaps.model_iso(point_isotherm, branch=None, model='Henry')  -> ParameterError 'branch must be singular' although the docstring lists None as a value of branch",
    "DPlotFit": "pygaps.model_iso(point_isotherm, model=['Henry', 'Langmuir']).properties  -> contains 'plot_fit': False, which the caller never passed",
}


def main(tier, seed):
    quiet_pygaps()
    run = Run(PID, tier, seed, "model_checking")
    rng = random.Random(seed)
    fam = families()
    total = sum(len(v) for v in fam.values())
    # ---- TLC: the transcription against the prescription over the whole product
    res = tlc.must_pass("CtorMC", timeout=900, coverage=(tier == "thorough"))
    if res["distinct"] != total + 1:
        raise MachineryError(f"CtorMC explored {res['distinct']} states, the driver enumerates {total} invocations (+1 initial state): the two products differ")
    if tier == "thorough":
        acts = {k: v for k, v in res["coverage"].items() if k.startswith("CtorMC!Call")}
        dead = [k for k, v in acts.items() if v[0] == 0]
        if len(acts) != 8 or dead:
            raise MachineryError(f"CtorMC action coverage: expected 8 live actions, got {acts}")
        run.set(tlc_action_coverage={k.split("!")[1]: v for k, v in acts.items()})
    run.set(states=res["distinct"], transitions=res["states_generated"],
            tlc_invariants=["DeviationsExact", "DeviationsNamed", "VerdictOfImpl", "UnitClausesMatchIsoValid", "AcceptedLabelsValid", "SpecSatisfiable",
                            "MembershipPredicate", "DeprecationBranchDead", "RefusalsNameFailing"])
    # ---- the invocations replayed on the real code
    if tier == "thorough":
        invs = [i for v in fam.values() for i in v]
    else:
        # the large families are refusal-dominated: half of every quota is drawn from the plausible invocations (no bogus / None label,
        # nothing missing, well-formed data), where a constructed object is projected and compared
        quota = {"units:base": 3000, "data:point": 1400, "data:model": 2000, "required:base": 400, "required:point": 300, "required:model": 300}

        def plausible(i):
            return (all(i[k] not in (B, N) for k in UGIVEN) and "missing" not in (i["m"], i["a"], i["t"]) and i["t"] != "badstr"
                    and i["data"] in (NA, "pl", "df", "df_pl", "df_branchcol", "df_adsonly") and i["model"] in (NA, "name", "instance"))
        invs = []
        for name, v in fam.items():
            if name not in quota:
                invs += v
                continue
            good = [i for i in v if plausible(i)]
            rest = [i for i in v if not plausible(i)]
            k = min(len(good), quota[name] // 2)
            invs += rng.sample(good, k) + rng.sample(rest, min(len(rest), quota[name] - k))
    bench = Bench()
    records, concrete = [], []
    try:
        import pygaps
        given = dict(material="mat_kw", adsorbate="nitrogen", temperature=77.0, user="John", **{LABEL_KW[k]: unit_value(v) for k, v in UGIVEN.items()})
        templates = {"iso_both": pygaps.PointIsotherm(pressure=list(P), loading=list(L), **given),
                     "iso_adsonly": pygaps.PointIsotherm(pressure=P[:4], loading=L[:4], **given)}
        for i in invs:
            obs, kw, msg = run_one(i, bench, templates)
            records.append({"inv": i, "obs": obs})
            concrete.append((kw, msg))
    finally:
        bench.close()
    answers = tlc.oracle("CtorOracle", records, timeout=900, chunk=30000)
    observed, drift, constructed = {}, 0, 0
    for rec, ans, (kw, msg) in zip(records, answers, concrete):
        i, obs = rec["inv"], rec["obs"]
        run.count(tuple(sorted(i.items())), nontrivial=i != inv(i["cls"], "kw", "kw", "kw", UGIVEN, i["data"], i["branch"], i["model"], "none") or i["cls"] == "miso")
        constructed += obs["out"] == "ok"
        v = ans["verdict"]
        if v == "not_an_invocation":
            raise MachineryError(f"the oracle does not know this invocation: {i}")
        if v == "ok":
            drift += bool(ans["drift"])
            if ans["drift"] and drift <= 3:
                run.note(f"MODEL-DRIFT: {i} behaves as prescribed but not as transcribed: observed {obs}, transcription {ans['impl']}")
        elif v == "observation":
            for d in ans["devs"]:
                observed[d] = observed.get(d, 0) + 1
        else:
            site = {"base": "BaseIsotherm.__init__", "point": "PointIsotherm.__init__", "model": "ModelIsotherm.__init__", "miso": "pygaps.modelling.model_iso"}[i["cls"]]
            how = {k: i[k] for k in ("m", "a", "t", "data", "branch", "model", "meta")}
            units = "all given" if all(i[k] == UGIVEN[k] for k in UGIVEN) else "all omitted" if all(i[k] == OM for k in UGIVEN) else "mixed"
            run.violation({"site": site, "failing": "+".join(sorted(ans["failing"])), "observed": obs["out"] if obs["out"] == "ok" else f"{obs['exc']}:{obs['clause']}",
                           "expected": "refusal" if ans["must"] else "construction", "units": units, **{k: v2 for k, v2 in how.items() if v2 not in (NA,)}},
                          {"invocation": i, "keywords": {k: repr(x)[:80] for k, x in kw.items()}, "message": msg, "observed": obs, "failing_clauses": ans["failing"],
                           "must_refuse_for": ans["must"], "may_refuse_for": ans["may"], "transcription_predicts": ans["impl"], "named_deviations_on_this_path": ans["devs"]})
    for d, n in sorted(observed.items()):
        run.note(f"OBSERVATION {d} ({n} invocation(s)): {REPRO.get(d, '')}")
    if drift:
        run.note(f"{drift} invocation(s) behaved as prescribed but not as transcribed (MODEL-DRIFT, not a verdict)")
    run.note("the 'volume' deprecation branch of BaseIsotherm.__init__ tests the class default (self._unit_params['loading_basis']), never the argument: "
             "loading_basis='volume' is refused as 'not an option' (allowed by the prescription; TLC: DeprecationBranchDead)")
    run.set(observations=observed, model_drift=drift, constructed=constructed, refused_or_raised=len(records) - constructed, exhaustive=tier == "thorough",
            families={k: len(v) for k, v in fam.items()},
            rule="abstract invocations of BaseIsotherm / PointIsotherm / ModelIsotherm / model_iso (how material, adsorbate, temperature are given x class of the seven unit labels x "
                 "data form x branch x model x metadata; families of spec/Ctor.tla): all 114 954 in thorough, every small family plus a seeded sample of the large ones in quick; "
                 "non-trivial = not the plain all-keywords invocation; distinct = distinct abstract invocation")
    run.add("traces_validated_against_impl", len(records))
    pick = [k for k, r in enumerate(records) if r["inv"]["cls"] == "point" and r["inv"]["data"] == "df_branchcol"][:1] + [0, len(records) - 1]
    for k in pick:
        run.sample({"invocation": records[k]["inv"], "observed": records[k]["obs"], "verdict": answers[k]["verdict"], "must": answers[k]["must"], "may": answers[k]["may"]})
    return run.finish()
