"""C03 - data accessors in requested units, branch/limit selection, interpolation.

A. TLC checks spec/IsoAccessMC exhaustively: for every accessor x stored representation x argument
   pattern the pipeline the accessor really runs equals "convert a copy permanently, read natively",
   except in the one family recorded as known finding.
B. Step oracle (spec/IsoAccessOracle): real accessor calls on point and model isotherms over a covering
   set of stored representations x argument patterns; allowed input/output monomials evaluated
   numerically; double oracle: the literal converted copy.
C. Scenario tables computed by TLC (spec/IsoDataOracle): branch guessing for every pressure sequence
   under every row labelling, branch/limit selection, exact rational interpolation values.
"""
import itertools
import random
from fractions import Fraction

import numpy

from ..common import Run, exc_class, MachineryError, quiet_pygaps
from .. import tlc
from ..units_common import dec_slot, Atoms, enc, sparse, n2, custom_adsorbate, custom_material, close
from ..iso_common import (PRES_U, MOLAR_U, MASS_U, VOL_U, MODES, LBASES, MBASES, ALL_LMU, lunits, munits, labels_of, make_point, py_labels)
from .c02 import Fixture, all_p, all_l, all_m, state, BOGUS

PID = "C03"
TOL = 1e-9
P_DATA = [0.1, 0.2, 0.4, 0.8, 1.6]
L_DATA = [1.0, 1.8, 2.9, 3.7, 4.1]
ACCESSORS = ["p.pressure", "p.loading", "p.loading_at", "p.pressure_at", "p.spreading_pressure_at",
             "m.pressure", "m.loading", "m.loading_at", "m.pressure_at", "m.spreading_pressure_at",
             "v.pressure", "v.loading", "v.pressure_at"]
IN_P = {"p.loading_at", "m.loading_at", "p.spreading_pressure_at", "m.spreading_pressure_at"}
IN_L = {"p.pressure_at", "m.pressure_at", "v.pressure_at"}


def make_model(s, fix, virial=False):
    import pygaps
    from pygaps.modelling import get_isotherm_model
    if virial:      # a pressure-calculating model: ModelIsotherm.pressure()/loading() take their other code path
        m = get_isotherm_model("Virial", parameters={"K": 2.3, "A": 0.11, "B": 0.02, "C": 0.001}, pressure_range=(0.05, 2.0), loading_range=(0.3, 4.2))
    else:
        m = get_isotherm_model("Langmuir", parameters={"K": 1.7, "n_m": 5.3}, pressure_range=(0.05, 2.0), loading_range=(0.3, 4.2))
    kw = py_labels(s)
    t = fix.temp if kw["temperature_unit"] == "K" else fix.temp - 273.15
    return pygaps.ModelIsotherm(model=m, material=fix.mat.name, adsorbate=fix.ads.name, temperature=t, **kw)


def make_iso(acc, s, fix):
    if acc.startswith("p."):
        return make_point(s, fix.ads, fix.mat, fix.temp, P_DATA, L_DATA, branch=[0] * len(P_DATA))
    return make_model(s, fix, virial=acc.startswith("v."))


def spec_acc(acc):
    """v.* = the same ModelIsotherm accessors exercised on a pressure-calculating (Virial) model"""
    return "m." + acc[2:] if acc.startswith("v.") else acc


def d(x):
    return {"none": None, "empty": "", "bogus": BOGUS}.get(x, x)


_SLOT = {"pm": "pmode", "pu": "punit", "lb": "lbasis", "lu": "lunit", "mb": "mbasis", "mu": "munit"}
_nkw = [0]


def kwargs_of(g, acc):
    kw = {}
    _nkw[0] += 1
    name = {"pm": "pressure_mode", "pu": "pressure_unit", "lb": "loading_basis", "lu": "loading_unit", "mb": "material_basis", "mu": "material_unit"}
    takes_p = acc.endswith(".pressure") or acc.endswith("_at")
    takes_l = acc.endswith(".loading") or acc in ("p.loading_at", "m.loading_at", "p.pressure_at", "m.pressure_at", "v.pressure_at", "p.spreading_pressure_at")
    for k, v in g.items():
        if v == "none":
            continue
        if k in ("pm", "pu") and not takes_p:
            return None
        if k in ("lb", "lu", "mb", "mu") and not takes_l:
            return None
        kw[name[k]] = dec_slot(v, _SLOT[k], _nkw[0])
    return kw


def call(acc, iso, x, kw):
    m = acc.split(".")[1]
    if m in ("pressure", "loading"):
        if not acc.startswith("p."):
            return getattr(iso, m)(7, **kw)
        return getattr(iso, m)(**kw)
    return getattr(iso, m)(x, **kw)


X_P = 0.5     # query pressure (stored units): between two data points
X_L = 2.4     # query loading (stored units)


def main(tier, seed):
    quiet_pygaps()
    run = Run(PID, tier, seed, "model_checking")
    rng = random.Random(seed)
    thorough = tier == "thorough"

    # ---- A. design-level exploration
    res = tlc.must_pass("IsoAccessMC", cfg="IsoAccessMCThorough" if thorough else "IsoAccessMC", timeout=1500)
    run.set(states=res["distinct"], transitions=res["states_generated"], tlc_invariants=["OnlyKnownDivergences", "direct target sets = filtered definition (ASSUME)"])

    fx = [Fixture("N2@77.344/full material", n2(), 77.344, custom_material()),
          Fixture("custom adsorbate with user properties", custom_adsorbate("verif_gas_a"), 298.15, custom_material("verif_mat_b", 0.913, 77.7))]

    # ---- B. accessor calls
    stored_lm = [(l, m) for l in all_l() for m in all_m()]
    if not thorough:
        cover_l = [("molar", "mmol"), ("molar", "cm3(STP)"), ("mass", "mg"), ("mass", "g"), ("volume_gas", "cm3"), ("volume_liquid", "L"), ("fraction", "none"), ("percent", "none")]
        cover_m = [("mass", "g"), ("mass", "kg"), ("volume", "cm3"), ("volume", "L"), ("molar", "mol"), ("molar", "mmol")]
        stored_lm = [(l, m) for l in cover_l for m in cover_m]
    stored = [state(p=p) for p in all_p()] + [state(l=l, m=m) for l, m in stored_lm]
    # half of the stored states keep their temperature in degrees Celsius (conversions need the kelvin value)
    for si, st in enumerate(stored):
        if si % 4 in (1, 2):      # (not correlated with the fixture, which alternates with si % 2)
            st["tu"] = "degC"
    args_p = [{"pm": a, "pu": u, "lb": "none", "lu": "none", "mb": "none", "mu": "none"}
              for a in ("none", "absolute", "relative", "relative%", "bogus") for u in ("none", "kPa", "torr", "Pa", "bogus")]

    def args_lm_for(s):
        out = []
        for lb in ("none",) + LBASES + ("bogus",):
            eff = s["lb"] if lb == "none" else lb
            lus = ["none", "bogus"] + list(lunits(eff)[:2]) + ["cm3" if eff in ("mass", "molar") else "g"]
            for lu in lus:
                for mb in ("none",) + MBASES + ("bogus",):
                    effm = s["mb"] if mb == "none" else mb
                    for mu in ["none", "bogus"] + list(munits(effm)[:2]):
                        out.append({"pm": "none", "pu": "none", "lb": lb, "lu": lu, "mb": mb, "mu": mu})
        return out

    per_state = 80 if thorough else 40
    calls = []     # (acc, s, g, fix)
    for acc in ACCESSORS:
        for si, s in enumerate(stored):
            fix = fx[si % 2]
            is_p_state = si < 10
            if acc.endswith(".pressure") or is_p_state:
                gs = args_p if (acc.endswith("pressure") or acc.endswith("_at")) else []
            else:
                gs = []
            if not is_p_state and not acc.endswith(".pressure") and acc != "m.spreading_pressure_at":
                allg = args_lm_for(s)
                rng.shuffle(allg)
                gs = gs + allg[:per_state]
            for g in gs:
                if kwargs_of(g, acc) is not None:
                    calls.append((acc, s, g, fix))
    recs = [{"acc": spec_acc(a), "s": s, "g": g, "av": f.avail} for a, s, g, f in calls]
    answers = tlc.oracle("IsoAccessOracle", recs, timeout=1800, chunk=20000)

    natives = {}

    def native(acc, s, fix, x):
        key = (acc, tuple(sorted(s.items())), fix.name, x)
        if key not in natives:
            iso = make_iso(acc, s, fix)
            natives[key] = numpy.asarray(call(acc, iso, x, {}), dtype=float)
        return natives[key]

    iso_cache = {}
    for (acc, s, g, fix), ans in zip(calls, answers):
        if not ans["judged"]:
            continue
        kw = kwargs_of(g, acc)
        ikey = (acc, tuple(sorted(s.items())), fix.name)
        n_used = iso_cache.get(ikey, (None, 99))[1]
        if n_used >= 10:
            iso_cache[ikey] = (make_iso(acc, s, fix), 0)
        iso, n_used = iso_cache[ikey]
        iso_cache[ikey] = (iso, n_used + 1)
        vins = [fix.atoms.value(v) for v in ans["vin"]]
        vouts = [fix.atoms.value(v) for v in ans["vout"]]
        if any(v is None for v in vins + vouts):
            run.add("not_judged_constant_unavailable")
            continue
        x_s = X_P if acc in IN_P else (X_L if acc in IN_L else None)
        x_req = None if x_s is None else (x_s / vins[0] if vins else x_s)
        nontrivial = any(v != "none" for v in g.values())
        run.count((acc, tuple(sorted(s.items())), tuple(sorted(g.items()))), nontrivial=nontrivial)
        sig0 = {"site": acc, "stored_lb": s["lb"], "stored_mb": s["mb"], "stored_pm": s["pm"],
                "args": "+".join(k for k, v in g.items() if v != "none"), "family": ans["cls"]}
        detail = {"stored": s, "args": g, "fixture": fix.name, "allowed_in": ans["vin"], "allowed_out": ans["vout"], "impl": ans["impl"]}
        try:
            out = numpy.asarray(call(acc, iso, x_req, kw), dtype=float)
        except Exception as e:
            if ans["must"]:
                # does the pipeline model explain the refusal?  (its input factor sends the lookup outside the data range)
                explained = False
                imp = ans["impl"]
                if imp["kind"] == "val" and x_s is not None and exc_class(e) == "ValueError":
                    fin_i = fix.atoms.value(imp["vin"])
                    if fin_i is not None:
                        xi = x_req * fin_i
                        lo, hi = (P_DATA[0], P_DATA[-1]) if acc in IN_P else (L_DATA[0], L_DATA[-1])
                        explained = acc.startswith("p.") and not (lo <= xi <= hi)
                run.violation({**sig0, "observed": "refused a fully specified valid request", "exception": exc_class(e), "matches_pipeline_model": explained},
                              {**detail, "message": str(e)[:200]})
            continue
        if not vins or not vouts:
            run.violation({**sig0, "observed": "returned a value for a request that names no representation"}, detail)
            continue
        ok = False
        for fin in vins:
            nat = native(acc, s, fix, None if x_s is None else x_req * fin)
            for fout in vouts:
                if nat.shape == out.shape and numpy.allclose(out, nat * fout, rtol=TOL, atol=0):
                    ok = True
        if ok and acc in ("p.pressure", "p.loading") and ans["must"] and nontrivial and out.size >= 4:
            # a slice between limits, the limits being in the REQUESTED representation
            srt = numpy.sort(out)
            lo, hi = 0.5 * (srt[0] + srt[1]), 0.5 * (srt[2] + srt[3])
            want = [float(v) for v in out if lo < v < hi]
            try:
                got_lim = [float(v) for v in call(acc, iso, None, {**kw, "limits": (lo, hi)})]
            except Exception as e:
                got_lim = "exception:" + exc_class(e)
            run.count((acc, "limits", tuple(sorted(s.items())), tuple(sorted(g.items()))))
            if got_lim != want:
                run.violation({**sig0, "observed": "limits are not applied to the values in the requested representation"},
                              {**detail, "limits": [lo, hi], "returned": got_lim, "expected": want})
        if ok:
            # double oracle: the literal experiment of the property (point isotherms, fully named target)
            if acc.startswith("p.") and ans["must"] and rng.random() < (1.0 if thorough else 0.3):
                try:
                    cp = make_iso(acc, s, fix)
                    cp.convert(**{k: v for k, v in kw.items()})
                    ref = numpy.asarray(call(acc, cp, x_req, {}), dtype=float)
                    run.add("converted_copy_comparisons")
                    if not (ref.shape == out.shape and numpy.allclose(out, ref, rtol=TOL, atol=0)):
                        run.violation({**sig0, "observed": "differs from the permanently converted copy read natively"}, {**detail, "accessor": out.tolist(), "copy": ref.tolist()})
                except Exception as e:
                    run.add("converted_copy_refused")
            continue
        # wrong number: does it coincide with what the implementation pipeline model predicts?
        imp = ans["impl"]
        matches_impl = False
        if imp["kind"] == "mixed":
            matches_impl = "mixed"      # two disagreeing pipelines inside one call: no single factor to compare with
        if imp["kind"] == "val":
            fin_i, fout_i = fix.atoms.value(imp["vin"]), fix.atoms.value(imp["vout"])
            if fin_i is not None and fout_i is not None:
                nat = native(acc, s, fix, None if x_s is None else x_req * fin_i)
                matches_impl = nat.shape == out.shape and bool(numpy.allclose(out, nat * fout_i, rtol=TOL, atol=0))
        run.violation({**sig0, "observed": "value differs from convert-a-copy-then-read", "matches_pipeline_model": matches_impl},
                      {**detail, "returned": out.tolist()})
    run.add("traces_validated_against_impl", len(calls))
    run.sample({"accessor_call": recs[len(recs) // 2], "oracle_answer": answers[len(recs) // 2]})

    # ---- C1. branch guessing on every pressure sequence, every labelling
    import pandas
    import pygaps
    maxlen, maxval = (5, 4) if thorough else (4, 4)
    table = tlc.oracle("IsoDataOracle", [{"k": "split", "maxval": maxval, "maxlen": maxlen}])[0]["rows"]
    readings = set()
    for row in table:
        p = row["p"]
        allowed = [list(a) for a in row["allowed"]]
        n = len(p)
        load = [10 * (i + 1) + p[i] for i in range(n)]
        variants = {
            "lists": lambda: pygaps.PointIsotherm(pressure=p, loading=load, material="verif_mat", adsorbate="nitrogen", temperature=77, **py_labels(state())),
            "float arrays": lambda: pygaps.PointIsotherm(pressure=numpy.array(p, dtype=float), loading=numpy.array(load, dtype=float), material="verif_mat", adsorbate="nitrogen", temperature=77, **py_labels(state())),
        }
        for lname, idx in (("default", None), ("shifted", list(range(3, 3 + n))), ("from one", list(range(1, n + 1))), ("reversed", list(range(n, 0, -1))),
                           ("strings", [f"r{i}" for i in range(n)]), ("floats", [i + 0.5 for i in range(n)])):
            for dt in (int, float):
                def mk(idx=idx, dt=dt):
                    df = pandas.DataFrame({"pressure": numpy.array(p, dtype=dt), "loading": numpy.array(load, dtype=float)}, index=idx)
                    return pygaps.PointIsotherm(isotherm_data=df, pressure_key="pressure", loading_key="loading", material="verif_mat", adsorbate="nitrogen", temperature=77, **py_labels(state()))
                variants[f"frame index={lname} dtype={dt.__name__}"] = mk
        seen = {}
        for vname, mk in variants.items():
            run.count(("split", tuple(p), vname), nontrivial=n > 1)
            try:
                iso = mk()
                marks = [int(b) for b in iso.data_raw["branch"].tolist()]
            except Exception as e:
                run.violation({"site": "branch guessing", "route": vname.split(" dtype")[0], "observed": "exception:" + exc_class(e)}, {"pressures": p, "message": str(e)[:200]})
                continue
            seen[vname] = marks
            if marks not in allowed:
                run.violation({"site": "branch guessing", "route": vname.split(" dtype")[0], "observed": "marks not given by the position of the pressure maximum",
                               "leading_maximum": bool(n > 1 and p[0] == max(p))}, {"pressures": p, "marks": marks, "allowed": allowed})
        if len({tuple(m) for m in seen.values()}) > 1:
            run.violation({"site": "branch guessing", "observed": "marks depend on row labels / dtype / container"}, {"pressures": p, "by_route": seen})
        if n > 1 and p[0] == max(p) and seen:
            readings.add(tuple(1 if m == [1] * n else 0 for m in [next(iter(seen.values()))]))
    if len(readings) > 1:
        run.violation({"site": "branch guessing", "observed": "leading-maximum rule differs between sequences"}, {})
    run.set(split_sequences=len(table))

    # ---- C2. branch / limit selection
    seqs = [r["p"] for r in table if len(r["p"]) >= 3 and len(set(r["p"])) == len(r["p"])]
    rng.shuffle(seqs)
    seqs = seqs[: (60 if thorough else 12)]
    sel_recs = []
    for p in seqs:
        marks = [0 if i <= p.index(max(p)) else 1 for i in range(len(p))]
        sel_recs.append({"k": "select", "vals": p, "marks": marks, "maxval": maxval})
    sel_ans = tlc.oracle("IsoDataOracle", sel_recs) if sel_recs else []
    for rec, ans in zip(sel_recs, sel_ans):
        p, marks = rec["vals"], rec["marks"]
        load = [10 * (i + 1) + p[i] for i in range(len(p))]
        df = pandas.DataFrame({"pressure": [float(v) for v in p], "loading": [float(v) for v in load], "branch": marks}, index=list(range(7, 7 + len(p))))
        iso = pygaps.PointIsotherm(isotherm_data=df, pressure_key="pressure", loading_key="loading", material="verif_mat", adsorbate="nitrogen", temperature=77, **py_labels(state()))
        for row in ans["rows"]:
            b = None if row["branch"] == "all" else row["branch"]
            lo = None if row["lo"] == -1 else float(row["lo"])
            hi = None if row["hi"] == -1 else float(row["hi"])
            run.count(("select", tuple(p), row["branch"], row["lo"], row["hi"]), nontrivial=(lo is not None or hi is not None))
            try:
                got = [float(v) for v in iso.pressure(branch=b, limits=(lo, hi))]
                got_idx = list(iso.pressure(branch=b, limits=(lo, hi), indexed=True).index)
            except Exception as e:
                run.violation({"site": "p.pressure selection", "observed": "exception:" + exc_class(e)}, {"pressures": p, "row": row})
                continue
            must = [float(p[i - 1]) for i in row["must"]]
            may = [float(p[i - 1]) for i in row["may"]]
            # got must be a subsequence of may (stored order) containing must
            it = iter(may)
            sub = all(any(v == w for w in it) for v in got)
            if not sub or any(v not in got for v in must) or len(got) != len(got_idx):
                run.violation({"site": "p.pressure selection", "observed": "not exactly the stored points of the branch inside the limits, in order",
                               "branch": row["branch"]}, {"pressures": p, "marks": marks, "limits": [lo, hi], "returned": got, "must": must, "may": may})
            # the same selection on the loading column and on an extra column (limits are then values of that column)
            if row["lo"] == -1 and row["hi"] == -1:
                for name, getter in (("p.loading selection", lambda: iso.loading(branch=b)), ):
                    got_l = [float(v) for v in getter()]
                    want_l = [float(load[i - 1]) for i in row["must"]]
                    if got_l != want_l:
                        run.violation({"site": name, "observed": "branch selection does not return the stored points of the branch in order", "branch": row["branch"]},
                                      {"pressures": p, "marks": marks, "returned": got_l, "expected": want_l})
        # limits on loading values: loading_i = 10*(i+1) + p_i is increasing in i, so a window of loadings is a window of positions
        for lo_i in range(len(p)):
            for hi_i in range(lo_i, len(p)):
                lo_v, hi_v = load[lo_i] - 0.5, load[hi_i] + 0.5
                got_l = [float(v) for v in iso.loading(limits=(lo_v, hi_v))]
                want_l = [float(v) for v in load[lo_i:hi_i + 1]]
                run.count(("select-loading", tuple(p), lo_i, hi_i))
                if got_l != want_l:
                    run.violation({"site": "p.loading selection", "observed": "limits on loading do not select exactly the points inside them"},
                                  {"loadings": load, "limits": [lo_v, hi_v], "returned": got_l, "expected": want_l})
    # net / excess data can be negative: an open limit is open on that side, whatever the sign of the data
    negp = [0.1, 0.2, 0.3, 0.4, 0.5, 0.6]
    negl = [-0.4, -0.1, 0.3, 0.9, 1.4, 1.6]
    iso = pygaps.PointIsotherm(pressure=negp, loading=negl, material="verif_mat", adsorbate="nitrogen", temperature=77, **py_labels(state()))
    for lims, want in (((None, 0.5), [-0.4, -0.1, 0.3]), ((-0.2, None), [-0.1, 0.3, 0.9, 1.4, 1.6]), ((None, None), negl), ((-1.0, -0.05), [-0.4, -0.1]), ((None, -0.2), [-0.4])):
        run.count(("select-negative", lims))
        for unit_kw, f in (({}, 1.0), ({"loading_unit": "mol"}, 1e-3)):
            lim = tuple(None if v is None else v * f for v in lims)
            got = [float(v) for v in iso.loading(limits=lim, **unit_kw)]
            if len(got) != len(want) or not numpy.allclose(got, [w * f for w in want], rtol=1e-12, atol=0):
                run.violation({"site": "p.loading selection", "observed": "limits on data with negative values do not select exactly the points inside them",
                               "lower_limit_open": lims[0] is None, "upper_limit_open": lims[1] is None}, {"loadings": negl, "limits": lim, "returned": got, "expected": want})
    run.set(selection_sequences=len(sel_recs))

    # ---- C3. interpolation: exact rational expectations
    grids = [list(c) for k in (2, 3, 4) for c in itertools.combinations(range(1, 6), k)]
    rng.shuffle(grids)
    grids = grids[: (25 if thorough else 8)]
    irecs = [{"k": "interp", "xs": xs, "ys": [x * x + i for i, x in enumerate(xs)]} for xs in grids]
    ians = tlc.oracle("IsoDataOracle", irecs)
    for rec, ans in zip(irecs, ians):
        xs, ys = rec["xs"], rec["ys"]
        for direction in ("loading_at", "pressure_at"):
            kx, ky = (xs, ys) if direction == "loading_at" else (ys, xs)
            iso = pygaps.PointIsotherm(pressure=[float(v) for v in xs], loading=[float(v) for v in ys], material="verif_mat", adsorbate="nitrogen", temperature=77, **py_labels(state()))
            rows = ans["rows"] if direction == "loading_at" else tlc.oracle("IsoDataOracle", [{"k": "interp", "xs": ys, "ys": xs}])[0]["rows"]
            for row in rows:
                q = Fraction(row["q"][0], row["q"][1])
                exp = row["r"]
                run.count(("interp", direction, tuple(xs), str(q)))
                fresh = pygaps.PointIsotherm(pressure=[float(v) for v in xs], loading=[float(v) for v in ys], material="verif_mat", adsorbate="nitrogen", temperature=77, **py_labels(state()))
                try:
                    got = float(getattr(fresh, direction)(float(q)))
                    err = None
                except Exception as e:
                    got, err = None, exc_class(e)
                if exp[0] == "outside":
                    if err is None:
                        run.violation({"site": "p." + direction, "observed": "value returned outside the measured range without a fill rule"}, {"grid": [kx, ky], "q": str(q), "returned": got})
                    else:
                        # with a fill rule the fill value is returned
                        for fill, wlo, whi in (((-7.0, 77.0), -7.0, 77.0), (0.0, 0.0, 0.0), (0, 0.0, 0.0), (3.5, 3.5, 3.5)):
                            try:
                                fv = float(getattr(fresh, direction)(float(q), interp_fill=fill))
                                want = wlo if q < kx[0] else whi
                                if fv != want:
                                    run.violation({"site": "p." + direction, "observed": "fill value not returned outside the range", "fill_rule": repr(fill)}, {"grid": [kx, ky], "q": str(q), "returned": fv})
                            except Exception as e:
                                run.violation({"site": "p." + direction, "observed": "refused outside the range although a fill rule was given", "fill_rule": repr(fill),
                                               "exception": exc_class(e)}, {"grid": [kx, ky], "q": str(q)})
                    continue
                want = float(Fraction(exp[1][0], exp[1][1]))
                if err is not None:
                    run.violation({"site": "p." + direction, "observed": "refused inside the measured range", "exception": err}, {"grid": [kx, ky], "q": str(q)})
                elif abs(got - want) > 1e-12 * max(1.0, abs(want)):
                    run.violation({"site": "p." + direction, "observed": "interpolated value off the straight line between neighbours",
                                   "at_measured_point": q.denominator == 1 and int(q) in kx}, {"grid": [kx, ky], "q": str(q), "returned": got, "expected": want})
    # desorption branch (stored with decreasing pressure) and a fill rule given although the query is inside the range:
    # the value must still be the datum / the chord
    for xs in grids[:6]:
        ys = [x * x + i for i, x in enumerate(xs)]
        top_p, top_l = xs[-1] + 1, ys[-1] + 3
        pr = [float(v) for v in xs] + [float(top_p)] + [float(v) - 0.25 for v in reversed(xs)]
        ld = [float(v) for v in ys] + [float(top_l)] + [float(v) + 0.5 for v in reversed(ys)]
        br = [0] * (len(xs) + 1) + [1] * len(xs)
        for direction in ("loading_at", "pressure_at"):
            for branch in ("ads", "des"):
                bx = [p for p, b in zip(pr, br) if b == (0 if branch == "ads" else 1)]
                by = [l for l, b in zip(ld, br) if b == (0 if branch == "ads" else 1)]
                kx, ky = (bx, by) if direction == "loading_at" else (by, bx)
                order = numpy.argsort(kx)
                kxs, kys = numpy.asarray(kx)[order], numpy.asarray(ky)[order]
                queries = list(kxs) + [0.5 * (kxs[i] + kxs[i + 1]) for i in range(len(kxs) - 1)]
                for fill in (None, (-7.0, 77.0), "extrapolate"):
                    df = pandas.DataFrame({"pressure": pr, "loading": ld, "branch": br})
                    iso = pygaps.PointIsotherm(isotherm_data=df, pressure_key="pressure", loading_key="loading", material="verif_mat", adsorbate="nitrogen", temperature=77, **py_labels(state()))
                    for q in queries:
                        want = float(numpy.interp(q, kxs, kys))
                        run.count(("interp-branch", direction, branch, str(fill), tuple(xs), round(float(q), 6)))
                        try:
                            got = float(getattr(iso, direction)(q, branch=branch, interp_fill=fill))
                        except Exception as e:
                            run.violation({"site": "p." + direction, "observed": "refused inside the measured range", "branch": branch, "fill_rule_given": fill is not None,
                                           "exception": exc_class(e)}, {"data": [kx, ky], "q": float(q)})
                            continue
                        if abs(got - want) > 1e-9 * max(1.0, abs(want)):
                            run.violation({"site": "p." + direction, "observed": "interpolated value off the straight line between neighbours", "branch": branch,
                                           "fill_rule_given": fill is not None}, {"data": [kx, ky], "q": float(q), "returned": got, "expected": want})
    # other interpolation kinds: must coincide with the data at measured points and refuse outside the range
    for kind in ("nearest", "zero", "slinear", "quadratic", "cubic"):
        xs = [1.0, 2.0, 3.5, 5.0, 7.0, 8.0]
        ys = [1.0, 2.5, 3.0, 4.5, 5.0, 6.5]
        for direction, kx, ky in (("loading_at", xs, ys), ("pressure_at", ys, xs)):
            iso = pygaps.PointIsotherm(pressure=xs, loading=ys, material="verif_mat", adsorbate="nitrogen", temperature=77, **py_labels(state()))
            for x, y in zip(kx, ky):
                run.count(("interp-kind", kind, direction, x))
                try:
                    got = float(getattr(iso, direction)(x, interpolation_type=kind))
                except Exception as e:
                    run.violation({"site": "p." + direction, "observed": "refused at a measured point", "kind": kind, "exception": exc_class(e)}, {"x": x})
                    continue
                if abs(got - y) > 1e-9 * max(1.0, abs(y)):
                    run.violation({"site": "p." + direction, "observed": "interpolant does not pass through the measured point", "kind": kind}, {"x": x, "returned": got, "expected": y})
            for x in (kx[0] - 0.5, kx[-1] + 0.5):
                try:
                    got = getattr(iso, direction)(x, interpolation_type=kind)
                    run.violation({"site": "p." + direction, "observed": "value returned outside the measured range without a fill rule", "kind": kind}, {"x": x, "returned": float(got)})
                except Exception:
                    pass
    run.set(interpolation_grids=len(irecs), exhaustive=False,
            rule="accessor calls: 10 accessors x stored representations (" + ("all 513 loading x material + 10 pressure" if thorough else "48 covering loading x material + 10 pressure")
                 + ") x argument patterns (omitted / valid / wrong-kind / unknown per position; seeded " + str(per_state) + " per state); branch guessing: every pressure sequence of length <= "
                 + str(maxlen) + " over 1.." + str(maxval) + " x 14 construction routes; selection: all branch x limit pairs; interpolation: rational query points on integer grids; "
                 "non-trivial = some unit argument given / sequence longer than 1 / a limit given; distinct = distinct scenario rows")
    run.assume("strictly monotonic branches for interpolation; boundary-equal limit points unconstrained; either reading of a leading pressure maximum accepted, consistently")
    return run.finish()
