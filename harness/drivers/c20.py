"""C20 - shipped adsorbates resolve uniquely; thermodynamic data consistent; backend fallback.

1. TLC model-checks spec/RegistryMC (the registry as a state machine: shipped prefix + any
   history of user adsorbates stored with store=True, interleaved with lookups) and
   spec/BackendMC (the property-method fallback machine with its hidden CoolProp state).
2. Registry on the REAL data: pygaps.ADSORBATE_LIST, data/adsorbates.json and an independent
   sqlite3 read of data/default.db are dumped to JSON; spec/RegistryOracle (TLC) audits each
   source (every string has exactly one owner, names are listed, no duplicate names), compares
   the sources, and validates the recorded log of Adsorbate.find(s) / isotherm.adsorbate for
   every string x {lower, upper, title, swapcase} against FindSpec (trace validation).
3. Store histories from the RegistryMC alphabet are executed on the real registry; every
   store step and the lookups after it are validated by TLC from the recorded pre-state.
4. Fallback: every property method x adsorbate kind (usable / unknown / missing backend_name,
   user property present / absent / partial) x calculate x temperature class x unit, single
   calls and call pairs on one object, plus every shipped adsorbate; spec/BackendOracle judges
   each recorded call (outcome class and value, against CoolProp's high-level interface).
5. Consistency: backend-linked adsorbates x temperature grid across (T_triple, T_critical);
   TLC evaluates the clauses of spec/Backend.tla on the recorded DecFloat observations.
"""
import itertools
import json
import os
import random
import shutil
import sqlite3

from ..common import Run, exc_class, MachineryError, quiet_pygaps, SRC
from .. import tlc
from ..encode import dec_enc

PID = "C20"
UNITS = dict(pressure_mode='absolute', pressure_unit='bar', material_basis='mass', material_unit='g',
             loading_basis='molar', loading_unit='mmol', temperature_unit='K')
VARIANT_FN = {"lower": str.lower, "upper": str.upper, "title": str.title, "swapcase": str.swapcase}


# ------------------------------------------------------------------ registry dumps
def _canon(v):
    if isinstance(v, bool):
        return repr(v)
    if isinstance(v, (int, float)):
        return repr(float(v))
    return str(v)


def _props(d):
    out = []
    for k, v in d.items():
        if k in ("name", "alias", "backend_name") or v is None:
            continue
        vals = v if isinstance(v, (list, tuple)) else [v]
        out.append(f"{k}=" + "|".join(sorted(_canon(x) for x in vals)))
    return sorted(out)


def _entry(name, alias, backend, props):
    if alias is None:
        alias = []
    if isinstance(alias, str):
        alias = [alias]
    return {"name": name, "lname": name.lower(), "alias": [str(a).lower() for a in alias],
            "backend": backend or "", "props": props}


def dump_live():
    import pygaps
    return [_entry(a.name, list(a.alias), a.properties.get("backend_name"), _props(a.properties)) for a in pygaps.ADSORBATE_LIST]


def dump_json():
    with open(os.path.join(SRC, "pygaps", "data", "adsorbates.json"), encoding="utf-8") as f:
        raw = json.load(f)
    return [_entry(e["name"], e.get("alias"), e.get("backend_name"), _props(e)) for e in raw]


def dump_db():
    """Independent read of the packaged database (plain sqlite3, read-only, no pyGAPS code)."""
    path = os.path.join(SRC, "pygaps", "data", "default.db")
    con = sqlite3.connect(f"file:{path}?mode=ro", uri=True)
    try:
        out = []
        for ads_id, name in con.execute("SELECT id, name FROM adsorbates ORDER BY id"):
            d = {}
            for typ, val in con.execute("SELECT type, value FROM adsorbate_properties WHERE ads_id = ? ORDER BY id", (ads_id,)):
                d.setdefault(typ, []).append(val)
            alias = d.pop("alias", [])
            backend = d.pop("backend_name", [None])
            out.append(_entry(name, alias, backend[0] if len(backend) == 1 else "|".join(map(str, backend)), _props(d)))
        return out
    finally:
        con.close()


def live_entry(a):
    return _entry(a.name, list(a.alias), a.properties.get("backend_name"), [])


def live_entry_full(a):
    return _entry(a.name, list(a.alias), a.properties.get("backend_name"), _props(a.properties))


# ------------------------------------------------------------------ helpers
def position(obj, lst):
    for i, a in enumerate(lst):
        if a is obj:
            return i + 1
    return -1


class Agg:
    """Collects failures and reports them with coarse signatures: when more than `limit` distinct
    subjects fail in the same (site, behaviour) class, one signature stands for the class."""

    def __init__(self, run, limit=6):
        self.run = run
        self.limit = limit
        self.groups = {}

    def add(self, cls_sig, subject_key, subject_sig, detail):
        g = self.groups.setdefault(json.dumps(cls_sig, sort_keys=True), {"sig": cls_sig, "subjects": {}})
        g["subjects"].setdefault(subject_key, (subject_sig, detail))

    def flush(self):
        for g in self.groups.values():
            subs = g["subjects"]
            if len(subs) > self.limit:
                self.run.violation({**g["sig"], "scope": "many"},
                                   {"count": len(subs), "first": [d for _, d in list(subs.values())[:5]]})
            else:
                for ssig, detail in subs.values():
                    self.run.violation({**g["sig"], **ssig}, detail)


# ------------------------------------------------------------------ part 2/3: registry
def registry_part(run, rng, thorough, workdir):
    import pygaps
    from pygaps.core.adsorbate import Adsorbate
    from pygaps.core.baseisotherm import BaseIsotherm
    from pygaps.core.pointisotherm import PointIsotherm
    from pygaps.core.modelisotherm import ModelIsotherm
    from pygaps.modelling import get_isotherm_model

    L = pygaps.ADSORBATE_LIST
    n0 = len(L)
    data = {"live": dump_live(), "json": dump_json(), "db": dump_db()}
    data_path = os.path.join(workdir, "registry.json")
    with open(data_path, "w") as f:
        json.dump(data, f)
    env = {"REG_DATA": data_path}
    agg = Agg(run)

    head = [{"k": "strings"}] + [{"k": "audit", "src": s} for s in ("live", "json", "db")] + \
           [{"k": "agree", "a": a, "b": b} for a, b in (("json", "db"), ("live", "db"))]
    ans = tlc.oracle("RegistryOracle", head, env=env, timeout=600)
    strings = sorted(ans[0]["strings"])
    variants = ans[0]["variants"]
    run.set(registry_entries=ans[0]["entries"], registry_strings=len(strings))
    if ans[0]["entries"] != n0 or not strings:
        raise MachineryError("registry dump does not match pygaps.ADSORBATE_LIST")
    # the property quantifies over the shipped adsorbates: refuse to run on a near-empty registry
    if n0 < 100:
        run.violation({"site": "registry:live", "observed": "fewer than 100 adsorbates loaded at import"}, {"entries": n0})
    for src, a in zip(("live", "json", "db"), ans[1:4]):
        run.count(("audit", src), n=a["strings"])
        for c in a["collisions"]:
            run.violation({"site": f"registry:{src}", "string": c["s"], "observed": "designates more than one adsorbate",
                           "owners": "+".join(sorted(c["owners"]))}, c)
        for n in a["dup_names"]:
            run.violation({"site": f"registry:{src}", "string": n, "observed": "name registered twice"}, None)
        if src != "json":
            # in the JSON source the name is appended by the Adsorbate constructor (Eff); in the
            # registry and the database the stored alias list itself must contain it
            for n in a["name_not_listed"]:
                agg.add({"site": f"registry:{src}", "observed": "name not among the aliases"}, n, {"string": n}, None)
    for (a, b), d in zip((("json", "db"), ("live", "db")), ans[4:6]):
        run.count(("agree", a, b), n=n0)
        for x in d["diff"]:
            agg.add({"site": f"registry:{a} vs {b}", "observed": "sources disagree", "what": x["what"]}, x["name"] or x["i"],
                    {"adsorbate": x["name"]}, x)

    # ---- lookups: every string x case variant, on find and on the isotherm classes
    def iso_base(s):
        return BaseIsotherm(material="m", adsorbate=s, temperature=300, **UNITS).adsorbate

    def iso_point(s):
        return PointIsotherm(pressure=[1.0, 2.0], loading=[1.0, 2.0], material="m", adsorbate=s, temperature=300, **UNITS).adsorbate

    henry = get_isotherm_model("Henry")
    henry.params = {"K": 1.0}

    def iso_model(s):
        return ModelIsotherm(model=henry, material="m", adsorbate=s, temperature=300, **UNITS).adsorbate

    sites = [("Adsorbate.find", Adsorbate.find), ("BaseIsotherm.adsorbate", iso_base), ("PointIsotherm.adsorbate", iso_point)]
    if thorough:
        sites.append(("ModelIsotherm.adsorbate", iso_model))
    recs, meta = [], []
    for s in strings:
        for v in variants:
            q = VARIANT_FN[v](s)
            if q.lower() != s:
                raise MachineryError(f"case variant {v} of {s!r} does not fold back")
            for site, fn in sites:
                try:
                    got = position(fn(q), L)
                    err = None
                except Exception as e:
                    got, err = 0, exc_class(e)
                recs.append({"k": "find", "s": s, "tail": [], "got": got})
                meta.append((site, s, v, q, err))
    unknown = ["zz-not-an-adsorbate", "", "nitrogen ", "n 2"]
    for q in unknown:
        try:
            got, err = position(Adsorbate.find(q), L), None
        except Exception as e:
            got, err = 0, exc_class(e)
        recs.append({"k": "find", "s": q.lower(), "tail": [], "got": got})
        meta.append(("Adsorbate.find", q.lower(), "unknown", q, err))
    answers = tlc.oracle("RegistryOracle", recs, env=env, timeout=900)
    for (site, s, v, q, err), r, a in zip(meta, recs, answers):
        run.count((site, s, v), nontrivial=(v != "lower" or site != "Adsorbate.find"))
        if err not in (None, "ParameterError"):
            agg.add({"site": site, "observed": "exception:" + err}, s, {"string": s}, {"query": q})
            continue
        if not a["ok"]:
            agg.add({"site": site, "observed": "resolves to " + ("nothing" if r["got"] == 0 else "another adsorbate")},
                    (s, a["got"]), {"string": s, "got": a["got"], "expected": "+".join(sorted(a["expected"]))},
                    {"query": q, "variant": v, "answer": a})
    run.add("traces_validated_against_impl", len(recs))
    run.sample({"lookup": meta[5][3], "site": meta[5][0], "observed_position": recs[5]["got"], "oracle": answers[5]})

    # ---- store histories on the real registry (alphabet of RegistryMC: a=nitrogen x=n2 b=argon y=ar c=zzuser z=zzalias)
    names = ["nitrogen", "Nitrogen", "zzuser", "ZZuser"]
    alias_args = [None, ["n2"], ["argon"], ["zzalias"], ["zzuser"], ["nitrogen", "ar"], ["zzalias", "zzuser"], ["N2", "zzalias"]]
    ops = [(n, a) for n in names for a in alias_args]
    hist = [(o,) for o in ops]
    pairs = list(itertools.product(ops, ops))
    rng.shuffle(pairs)
    hist += pairs if thorough else pairs[:120]
    if thorough:
        hist += [tuple(rng.choice(ops) for _ in range(3)) for _ in range(1000)]
    probe = ["nitrogen", "n2", "argon", "ar", "zzuser", "zzalias"]
    srecs, smeta = [], []
    try:
        for h in hist:
            del L[n0:]
            for name, al in h:
                pre = [live_entry(a) for a in L[n0:]]
                try:
                    obj = Adsorbate(name, store=True, **({} if al is None else {"alias": list(al)}))
                except Exception as e:
                    run.violation({"site": "Adsorbate(store=True)", "observed": "exception:" + exc_class(e)}, {"name": name, "alias": al})
                    break
                if len(L) < n0 or any(x is not y for x, y in zip(L[:n0], SHIPPED_REF)):
                    run.violation({"site": "Adsorbate(store=True)", "observed": "shipped part of the registry modified"}, {"name": name, "alias": al})
                    break
                post = [live_entry(a) for a in L[n0:]]
                srecs.append({"k": "store", "tail": pre, "e": live_entry(obj), "post": post})
                smeta.append(("store", h, name, al))
                for s in sorted(set(probe + rng.sample(strings, 3))):
                    q = rng.choice(list(VARIANT_FN.values()))(s)
                    try:
                        got, err = position(Adsorbate.find(q), L), None
                    except Exception as e:
                        got, err = 0, exc_class(e)
                    srecs.append({"k": "find", "s": s, "tail": post, "got": got})
                    smeta.append(("find", h, s, err))
    finally:
        del L[n0:]
    sans = tlc.oracle("RegistryOracle", srecs, env=env, timeout=900, chunk=20000)
    for m, r, a in zip(smeta, srecs, sans):
        if m[0] == "store":
            run.count(("store", repr(m[1])), nontrivial=True)
            if not a["ok"] or not a["stable"]:
                agg.add({"site": "Adsorbate(store=True)", "observed": "registry step not allowed" if not a["ok"] else "a shipped adsorbate no longer resolves to itself"},
                        (m[2], tuple(m[3] or ())), {"name": m[2]}, {"history": m[1], "record": r, "answer": a})
            elif not a["impl_ok"]:
                run.note(f"MODEL-DRIFT: store step allowed by StoreSpec but not predicted by StoreImpl: {m[2]} {m[3]}")
        else:
            run.count(("find-after-store", repr(m[1]), m[2]), nontrivial=True)
            if m[3] not in (None, "ParameterError"):
                agg.add({"site": "Adsorbate.find after store", "observed": "exception:" + m[3]}, m[2], {"string": m[2]}, {"history": m[1]})
            elif not a["shipped_ok"] or (not a["ok"] and a["owners"] <= 1):
                # shipped strings must keep resolving to the shipped owner, whatever was stored; other strings
                # must resolve to their only owner / be refused; collisions among USER entries are outside the property
                agg.add({"site": "Adsorbate.find after store", "observed": "resolves to " + ("nothing" if r["got"] == 0 else "another adsorbate")},
                        (m[2], a["got"]), {"string": m[2], "got": a["got"]}, {"history": m[1], "answer": a})
    run.add("traces_validated_against_impl", len(srecs))
    run.set(store_histories=len(hist))
    if srecs:
        run.sample({"store_history": smeta[0][1], "record": srecs[0], "oracle": sans[0]})
    agg.flush()
    return strings



# ------------------------------------------------------------------ part 3b: database operations that touch the registry
def db_part(run, rng, thorough, workdir, env):
    """adsorbate_to_db / adsorbate_delete_db on a private copy of default.db, succeeding and REFUSED (adsorbate still
    referenced by an isotherm, adsorbate absent, name already present), each followed by the lookup sweep for the names
    involved: TLC checks every step against DbStepSpec (a refused operation leaves registry and lookups unchanged)."""
    import pygaps
    import pygaps.parsing.sqlite as sq
    from pygaps.core.adsorbate import Adsorbate
    from pygaps.core.baseisotherm import BaseIsotherm
    from pygaps.core.pointisotherm import PointIsotherm
    L = pygaps.ADSORBATE_LIST
    db = os.path.join(workdir, "scratch.db")
    shutil.copyfile(os.path.join(SRC, "pygaps", "data", "default.db"), db)
    con = sqlite3.connect(db)          # plain SQL: an isotherm row that references nitrogen (and a material for it)
    try:
        itype = con.execute("SELECT type FROM isotherm_type LIMIT 1").fetchone()[0]
        con.execute("INSERT INTO materials (name) VALUES ('zzmat')")
        con.execute("INSERT INTO isotherms (id, iso_type, material, adsorbate, temperature) VALUES ('zz-ref', ?, 'zzmat', 'nitrogen', 77.0)", (itype,))
        con.commit()
    finally:
        con.close()

    def names():
        return [a.name for a in L]

    NOTFOUND = "<not found>"

    def lookup(fn, q):
        """-> (adsorbate name or NOTFOUND, backend link of the object found)"""
        try:
            obj = fn(q)
        except Exception as e:
            return (NOTFOUND if exc_class(e) == "ParameterError" else "<exception:" + exc_class(e) + ">"), ""
        if not any(obj is a for a in L):
            return NOTFOUND, ""            # an isotherm quietly linked to a blank, unregistered adsorbate
        return obj.name, str(obj.properties.get("backend_name") or "")

    iso_sites = [("BaseIsotherm.adsorbate", lambda q: BaseIsotherm(material="m", adsorbate=q, temperature=300, **UNITS).adsorbate),
                 ("PointIsotherm.adsorbate", lambda q: PointIsotherm(pressure=[1.0, 2.0], loading=[1.0, 2.0], material="m", adsorbate=q, temperature=300, **UNITS).adsorbate)]
    all_strings = sorted(STRINGS_REF)

    def sweep(focus, variant_of):
        """Adsorbate.find over EVERY shipped string (one case variant each) and the user strings; the isotherm link for the focus strings."""
        out = {}
        for s in all_strings + [x for x in focus if x not in STRINGS_REF]:
            out[("Adsorbate.find", s)] = (variant_of[s],) + lookup(Adsorbate.find, variant_of[s])
        for s in focus:
            for site, fn in iso_sites:
                out[(site, s)] = (variant_of[s],) + lookup(fn, variant_of[s])
        return out

    nitrogen, argon, co2 = Adsorbate.find("nitrogen"), Adsorbate.find("argon"), Adsorbate.find("carbon dioxide")
    user = Adsorbate("zzuser", alias=["zzalias"], molar_mass=10.0)
    user2 = Adsorbate("zzuser", alias=["zzalias", "zzother"], molar_mass=11.0)
    absent = Adsorbate("zzabsent", alias=["zzghost"])
    # an EMPTY user database with the pyGAPS schema (the documented way: pragmas + isotherm type)
    from pygaps.utilities.sqlite_db_pragmas import PRAGMAS
    from pygaps.utilities.sqlite_utilities import db_execute_general
    db2 = os.path.join(workdir, "user.db")
    for pragma in PRAGMAS:
        db_execute_general(pragma, db2)
    con = sqlite3.connect(db2)
    try:
        con.execute("INSERT INTO isotherm_type (type) VALUES ('isotherm')")
        con.commit()
    finally:
        con.close()
    loaded = {}

    def from_db():
        for a in sq.adsorbates_from_db(db_path=db2, verbose=False):
            loaded[a.name] = a

    ops = [("delete", nitrogen, lambda: sq.adsorbate_delete_db(nitrogen, db_path=db, verbose=False)),          # refused: referenced
           ("delete", nitrogen, lambda: sq.adsorbate_delete_db("nitrogen", db_path=db, verbose=False)),        # by name, refused
           ("delete", absent, lambda: sq.adsorbate_delete_db(absent, db_path=db, verbose=False)),              # refused: not in the file
           ("to_db", user, lambda: sq.adsorbate_to_db(user, db_path=db, verbose=False)),                       # ok
           ("to_db", user, lambda: sq.adsorbate_to_db(user, db_path=db, verbose=False)),                       # refused: name exists
           ("delete", nitrogen, lambda: sq.adsorbate_delete_db(nitrogen, db_path=db, verbose=False)),          # refused again, user entry present
           ("to_db_overwrite", user2, lambda: sq.adsorbate_to_db(user2, db_path=db, overwrite=True, verbose=False)),   # ok
           ("to_db_overwrite", absent, lambda: sq.adsorbate_to_db(absent, db_path=db, overwrite=True, verbose=False)),  # refused
           ("delete", user2, lambda: sq.adsorbate_delete_db(user2, db_path=db, verbose=False)),                # ok
           ("delete", user2, lambda: sq.adsorbate_delete_db(user2, db_path=db, verbose=False)),                # refused: gone
           # --- successful operations on an empty user database, shipped adsorbates
           ("to_db", nitrogen, lambda: sq.isotherm_to_db(BaseIsotherm(material="zzcarbon", adsorbate="N2", temperature=77, **UNITS), db_path=db2, verbose=False)),  # auto-insert
           ("to_db", co2, lambda: sq.adsorbate_to_db(co2, db_path=db2, verbose=False)),                         # ok
           ("to_db", co2, lambda: sq.adsorbate_to_db(co2, db_path=db2, verbose=False)),                         # refused: already there
           ("from_db", co2, from_db),                                                                            # pure read
           ("to_db_overwrite", co2, lambda: sq.adsorbate_to_db(co2, db_path=db2, overwrite=True, verbose=False)),  # ok
           ("to_db", user, lambda: sq.adsorbate_to_db(user, db_path=db2, verbose=False)),                       # ok (user adsorbate)
           ("from_db", user, from_db),
           ("delete", user, lambda: sq.adsorbate_delete_db(user, db_path=db2, verbose=False)),                 # ok
           ("to_db", argon, lambda: sq.adsorbate_to_db(argon, db_path=db2, verbose=False)),                     # ok
           ("delete", argon, lambda: sq.adsorbate_delete_db(argon, db_path=db, verbose=False))]                # ok: unreferenced shipped one (in the COPY of default.db)
    focus = sorted(set(live_entry(nitrogen)["alias"] + live_entry(argon)["alias"] + live_entry(co2)["alias"]
                       + ["zzuser", "zzalias", "zzother", "zzabsent", "zzghost"] + rng.sample(all_strings, 6)))
    recs = []
    saved = list(L)
    saved_alias = {id(a): (a, list(a.alias)) for a in L}
    saved_mats = list(pygaps.MATERIAL_LIST)
    originals = {a.name: live_entry_full(a) for a in (nitrogen, co2, argon, user)}
    try:
        for op, ads, fn in ops:
            variant_of = {s: rng.choice(list(VARIANT_FN.values()))(s) for s in set(all_strings) | set(focus)}
            entry_before = live_entry(ads)
            pre, before = names(), sweep(focus, variant_of)
            try:
                fn()
                outcome = "ok"
            except Exception as e:
                outcome = "refused"
                if exc_class(e) not in ("ParsingError",):
                    run.note(f"db operation {op} {ads.name} refused with {exc_class(e)}")
            after = sweep(focus, variant_of)
            recs.append({"k": "dbop", "op": op, "name": ads.name, "outcome": outcome, "e": entry_before, "pre": pre, "post": names(),
                         "sweep": [{"site": site, "s": s, "query": before[(site, s)][0], "before": before[(site, s)][1], "after": after[(site, s)][1],
                                    "before_backend": before[(site, s)][2], "after_backend": after[(site, s)][2]}
                                   for (site, s) in sorted(before)]})
            run.count(("dbop", op, ads.name, outcome, len(recs)), n=len(before))
    finally:
        L[:] = saved
        for a, al in saved_alias.values():
            a.alias[:] = al
        pygaps.MATERIAL_LIST[:] = saved_mats
    expected = ["refused", "refused", "refused", "ok", "refused", "refused", "ok", "refused", "ok", "refused",
                "ok", "ok", "refused", "ok", "ok", "ok", "ok", "ok", "ok", "ok"]
    got = [r["outcome"] for r in recs]
    if got != expected:
        run.note(f"db operations: outcomes {got} differ from the scripted expectation {expected} (not judged here: C08/C09)")
    if got[0] != "refused" or got[10] != "ok" or got[11] != "ok":
        raise MachineryError(f"the scripted database history did not run as intended: {got}")
    # what came back from the user database answers to the same strings as what was uploaded
    rt = [{"k": "roundtrip", "a": originals[n], "b": live_entry_full(x)} for n, x in sorted(loaded.items()) if n in originals]
    answers = tlc.oracle("RegistryOracle", recs + rt, env=env, timeout=600)
    for q, a in zip(rt, answers[len(recs):]):
        run.count(("roundtrip", q["a"]["name"]))
        if a["diff"] not in ("same", "properties"):
            run.violation({"site": "sqlite.adsorbate_to_db + adsorbates_from_db", "observed": "adsorbate read back differs", "what": a["diff"]},
                          {"uploaded": q["a"], "read_back": q["b"]})
    if not rt:
        raise MachineryError("nothing was read back from the user database")
    for r, a in zip(recs, answers):
        cls = {"site": "sqlite." + {"delete": "adsorbate_delete_db", "from_db": "adsorbates_from_db"}.get(r["op"], "adsorbate_to_db"), "outcome": r["outcome"]}
        if not a["ok"] or not a["shipped_prefix_kept"]:
            run.violation({**cls, "observed": "registry changed by a refused operation" if r["outcome"] == "refused" else "registry step not allowed"},
                          {"op": r["op"], "name": r["name"], "pre_tail": r["pre"][-3:], "post_tail": r["post"][-3:], "len": [len(r["pre"]), len(r["post"])]})
        if a["lookups_changed"]:
            x = a["lookups_changed"][0]
            run.violation({**cls, "observed": "lookups changed" + (" by a refused operation" if r["outcome"] == "refused" else " in a way the operation does not allow"),
                           "lookup_site": x["site"]}, {"op": r["op"], "name": r["name"], "changed": a["lookups_changed"][:6]})
    run.add("traces_validated_against_impl", len(recs))
    run.set(db_operations=len(recs))
    run.sample({"db_operation": {k: recs[0][k] for k in ("op", "name", "outcome")}, "lookups": recs[0]["sweep"][:3], "oracle": answers[0]})


SHIPPED_REF = []
STRINGS_REF = set()


# ------------------------------------------------------------------ part 4: fallback machine
USER = dict(molar_mass=11.25, p_triple=0.125, t_triple=13.5, p_critical=14.75, t_critical=150.5, saturation_pressure=1625.0,
            surface_tension=17.25, liquid_density=18.5, liquid_molar_density=19.75, gas_density=20.25,
            gas_molar_density=21.5, enthalpy_liquefaction=22.75)


class Ref:
    """Reference values straight from CoolProp's high-level interface (no pyGAPS code)."""

    def __init__(self):
        import CoolProp.CoolProp as cp
        self.cp = cp
        self.cache = {}

    def value(self, fluid, m, T):
        key = (fluid, m, T)
        if key not in self.cache:
            try:
                v = self._value(fluid, m, T)
                if v != v or v in (float("inf"), float("-inf")):
                    v = None
            except Exception:
                v = None
            self.cache[key] = v
        return self.cache[key]

    def _value(self, f, m, T):
        P = self.cp.PropsSI
        if not f:
            return None
        if m == "molar_mass":
            return P("M", f)
        if m == "p_triple":
            return P("PTRIPLE", f)
        if m == "t_triple":
            return P("TTRIPLE", f)
        if m == "p_critical":
            return P("PCRIT", f)
        if m == "t_critical":
            return P("TCRIT", f)
        if T is None:
            return None
        if m in ("saturation_pressure", "pressure_saturation"):
            return P("P", "T", T, "Q", 0, f)
        if m == "surface_tension":
            return P("I", "T", T, "Q", 0, f)
        if m == "liquid_density":
            return P("D", "T", T, "Q", 0, f)
        if m == "liquid_molar_density":
            return P("DMOLAR", "T", T, "Q", 0, f)
        if m == "gas_density":
            return P("D", "T", T, "Q", 1, f)
        if m == "gas_molar_density":
            return P("DMOLAR", "T", T, "Q", 1, f)
        if m in ("enthalpy_liquefaction", "enthalpy_vaporisation"):
            return P("HMOLAR", "T", T, "Q", 1, f) - P("HMOLAR", "T", T, "Q", 0, f)
        raise MachineryError(m)


def do_call(ads, m, tdep, T, calc, unit):
    kw = {"calculate": calc}
    if unit != "none":
        kw["unit"] = unit
    try:
        v = getattr(ads, m)(T, **kw) if m in tdep else getattr(ads, m)(**kw)
        return ("val", v)
    except Exception as e:
        return ("exc", exc_class(e), str(e)[:160])


def call_record(ads, link, fluid, m, alpha, T, calc, unit, ref):
    out = do_call(ads, m, alpha["tdep"], T, calc, unit)
    rv = ref.value(fluid if link == "valid" else None, m, T if m in alpha["tdep"] else None)
    uv = ads.properties.get(alpha["userkey"][m])
    rec = {"k": "call", "m": m, "link": link, "can": rv is not None, "user_has": uv is not None, "calc": bool(calc), "unit": unit,
           "obs": out[0], "exc": out[1] if out[0] == "exc" else "", "val": [0, 0], "ref": dec_enc(rv) if rv is not None else [0, 0],
           "user": dec_enc(uv) if uv is not None else [0, 0]}
    if out[0] == "val":
        try:
            rec["val"] = dec_enc(out[1])
        except Exception:
            rec["obs"], rec["exc"] = "exc", "non-finite or non-numeric value"
    return rec, out


def backend_part(run, rng, thorough):
    import pygaps
    from pygaps.core.adsorbate import Adsorbate
    alpha = tlc.oracle("BackendOracle", [{"k": "alphabet"}])[0]
    methods = sorted(alpha["methods"])
    units = sorted(alpha["units"])
    if len(methods) != 14 or len(units) != 8:
        raise MachineryError("spec alphabet changed")
    ref = Ref()
    linked = [a for a in pygaps.ADSORBATE_LIST if a.properties.get("backend_name")]
    fluids = sorted({a.properties["backend_name"] for a in linked})
    others = [f for f in fluids if f != "NITROGEN"]
    rng.shuffle(others)
    pick = ["NITROGEN"] + (others if thorough else others[:2])     # thorough: every linked fluid
    recs, meta = [], []

    def temps(fluid):
        tt, tc = ref.value(fluid, "t_triple", None), ref.value(fluid, "t_critical", None)
        return {"in": tt + 0.45 * (tc - tt), "above": tc * 1.5 + 10}

    def add(ads, kind, link, fluid, m, T, tcls, calc, unit, seq=""):
        rec, out = call_record(ads, link, fluid, m, alpha, T, calc, unit, ref)
        recs.append(rec)
        meta.append({"kind": kind, "m": m, "tcls": tcls, "seq": seq, "out": out, "T": T})

    # --- custom adsorbates: link x user (all / none / each single key missing / each single key only)
    userkeys = sorted(USER)
    user_sets = [("all", dict(USER)), ("none", {})]
    for k in (userkeys if thorough else rng.sample(userkeys, 4)):
        user_sets.append((f"without {k}", {x: v for x, v in USER.items() if x != k}))
        user_sets.append((f"only {k}", {k: USER[k]}))
    for fluid in pick:
        tt = temps(fluid)
        for link, props in (("valid", {"backend_name": fluid}), ("bogus", {"backend_name": "NoSuchFluid-" + fluid}), ("none", {})):
            if link != "valid" and fluid != pick[0]:
                continue
            for uname, up in (user_sets if pick.index(fluid) < 8 else user_sets[:2]):
                for m in methods:
                    for tcls in (("in", "above") if m in alpha["tdep"] else ("na",)):
                        T = tt.get(tcls)
                        for calc in (True, False):
                            ulist = ["none"] + (units if (uname in ("all", "none") and fluid == pick[0]) else [rng.choice(units)]) if m in alpha["psat"] else ["none"]
                            for unit in ulist:
                                # a FRESH object per call: every call is a first call (self.backend keeps hidden state,
                                # also after a failed creation of the CoolProp state)
                                ads = Adsorbate(f"zz {link} {uname}", **props, **up)
                                add(ads, f"custom:{link}:{uname}", link, fluid, m, T, tcls, calc, unit)
    # --- hidden state: pairs of calls on ONE object (failure then success, success then failure, ...)
    letters = [(m, tcls, calc) for m in methods for tcls in (("in", "above") if m in alpha["tdep"] else ("na",)) for calc in (True, False)]
    allpairs = list(itertools.product(letters, letters))
    rng.shuffle(allpairs)
    fluid = pick[0]
    tt = temps(fluid)
    for uname, up in (("all", dict(USER)), ("none", {})):
        for (a, b) in (allpairs if thorough else allpairs[:250]):
            ads = Adsorbate(f"zz pair {uname}", backend_name=fluid, **up)
            for i, (m, tcls, calc) in enumerate((a, b)):
                add(ads, f"pair:{uname}", "valid", fluid, m, tt.get(tcls), tcls, calc, "none", seq=f"{i + 1} of {a}->{b}")
    # --- the hidden CoolProp state at ONE temperature: every ordered pair of the 14 methods (and seeded triples) on one
    #     object, all calculated at the same T (liquid after vapour, vapour after liquid, scalar in between ...); every call is
    #     judged like a first call against the independent PropsSI value
    same_fluids = pick[:4] if thorough else pick[:1]
    for fluid in same_fluids:
        tt = temps(fluid)
        seqs = [(a, b) for a in methods for b in methods]
        seqs += [tuple(rng.choice(methods) for _ in range(3)) for _ in range(600 if thorough else 80)]
        for seq in seqs:
            ads = Adsorbate("zz same T", backend_name=fluid)
            for i, m in enumerate(seq):
                add(ads, "sameT:none", "valid", fluid, m, tt["in"] if m in alpha["tdep"] else None, "in" if m in alpha["tdep"] else "na",
                    True, "none", seq=f"{i + 1} of {'->'.join(seq)} at one T")
    # --- every shipped adsorbate
    for a in pygaps.ADSORBATE_LIST:
        fluid = a.properties.get("backend_name")
        link = "valid" if fluid and ref.value(fluid, "molar_mass", None) is not None else ("bogus" if fluid else "none")
        T = temps(fluid)["in"] if link == "valid" else 300.0
        k0 = pygaps.ADSORBATE_LIST.index(a) % len(methods)
        for m in methods[k0:] + methods[:k0]:          # the FIRST call on the registry object is a different method for each adsorbate
            for calc in (True, False):
                add(a, f"shipped:{'linked' if fluid else 'unlinked'}", link, fluid, m, T if m in alpha["tdep"] else None, "in", calc, "none")
        if not fluid:
            # adsorbates without backend (some with stored critical / triple data): every method as the first call on a fresh copy
            props = {k: v for k, v in a.to_dict().items() if k != "name"}
            for m in methods:
                clone = Adsorbate(a.name, **{**props, "alias": list(props.get("alias", []))})
                add(clone, "shipped:unlinked copy", link, fluid, m, T if m in alpha["tdep"] else None, "in", True, "none")
        if fluid and link != "valid":
            run.violation({"site": "registry:live", "adsorbate": a.name, "observed": "backend_name unknown to CoolProp"}, {"backend_name": fluid})

    answers = tlc.oracle("BackendOracle", recs, timeout=900, chunk=25000)
    agg = Agg(run)
    for r, mt, a in zip(recs, meta, answers):
        run.count((mt["kind"], r["m"], mt["tcls"], r["calc"], r["unit"], r["can"], r["user_has"], mt["seq"]),
                  nontrivial=(not r["can"]) or (not r["calc"]) or r["unit"] != "none" or mt["kind"].startswith("shipped") or bool(mt["seq"]))
        if a["impl_predicts"] != a["observed"] and a["ok"]:
            run.note(f"MODEL-DRIFT: {r['m']} {mt['kind']}: allowed outcome {a['observed']} but the transcription predicts {a['impl_predicts']}")
        if not a["ok"]:
            cls = {"site": "Adsorbate." + r["m"], "link": r["link"], "backend_can": r["can"], "user_property": r["user_has"],
                   "calculate": r["calc"], "unit_given": r["unit"] != "none", "observed": a["observed"],
                   "expected": "+".join(a["allowed"]), "after_other_call": not mt["seq"].startswith("1") and bool(mt["seq"])}
            agg.add(cls, mt["kind"], {"fixture": mt["kind"].split(":")[0]}, {"record": r, "fixture": mt, "answer": a})
    agg.flush()
    run.add("traces_validated_against_impl", len(recs))
    for i in (0, len(recs) // 2):
        run.sample({"call": {k: recs[i][k] for k in ("m", "link", "can", "user_has", "calc", "unit", "obs", "exc", "val", "ref", "user")},
                    "fixture": meta[i]["kind"], "oracle": answers[i]})
    run.set(fallback_calls=len(recs), fluids_for_custom_adsorbates=pick)
    return linked, alpha, ref


# ------------------------------------------------------------------ part 5: consistency
def thermo_part(run, rng, thorough, linked, alpha):
    units = sorted(alpha["units"])
    den = 32 if thorough else 8
    recs, names = [], []
    agg = Agg(run)
    for a in linked:
        try:
            tt, tc = a.t_triple(), a.t_critical()
            rec = {"k": "thermo", "M": dec_enc(a.molar_mass()), "pt": dec_enc(a.p_triple()), "pc": dec_enc(a.p_critical()),
                   "tt": dec_enc(tt), "tc": dec_enc(tc), "rows": []}
        except Exception as e:
            agg.add({"site": "thermo", "clause": "critical/triple point available", "observed": "exception:" + exc_class(e)}, a.name, {"adsorbate": a.name}, str(e)[:200])
            continue
        for k in range(1, den):
            T = tt + k / den * (tc - tt)
            try:
                row = {"T": dec_enc(T), "psat": dec_enc(a.saturation_pressure(T)), "rl": dec_enc(a.liquid_density(T)),
                       "rlm": dec_enc(a.liquid_molar_density(T)), "rg": dec_enc(a.gas_density(T)), "rgm": dec_enc(a.gas_molar_density(T)),
                       "h": dec_enc(a.enthalpy_vaporisation(T)),
                       "hp": dec_enc(a.enthalpy_vaporisation(press=a.saturation_pressure(T))),
                       "hlp": dec_enc(a.enthalpy_liquefaction(press=a.saturation_pressure(T))), "pu": {u: dec_enc(a.pressure_saturation(T, unit=u)) for u in units}}
            except Exception as e:
                # the property conditions on the backend delivering: a refusal is not a wrong number
                run.add("thermo_points_refused")
                run.note(f"thermo: {a.name} at {k}/{den}: {exc_class(e)}")
                continue
            rec["rows"].append(row)
            run.count(("thermo", a.name, k), n=14)
        recs.append(rec)
        names.append(a.name)
    answers = tlc.oracle("BackendOracle", recs, timeout=900)
    for n, r, a in zip(names, recs, answers):
        if len(r["rows"]) < (den - 1) // 2:
            agg.add({"site": "thermo", "clause": "values available across (T_triple, T_critical)", "observed": "refused on most of the grid"}, n, {"adsorbate": n}, len(r["rows"]))
        for f in a["failed"]:
            agg.add({"site": "thermo", "clause": f["clause"], "observed": "clause violated"}, n, {"adsorbate": n},
                    {"adsorbate": n, "row": r["rows"][f["row"] - 1], "M": r["M"], "pt": r["pt"], "pc": r["pc"]})
    agg.flush()
    run.add("traces_validated_against_impl", len(recs))
    run.set(thermo_adsorbates=len(recs), thermo_grid=f"T_triple + k/{den} (T_critical - T_triple), k = 1..{den - 1}")
    if recs:
        i = rng.randrange(len(recs))
        run.sample({"thermo": names[i], "M": recs[i]["M"], "pt": recs[i]["pt"], "pc": recs[i]["pc"], "row": recs[i]["rows"][len(recs[i]["rows"]) // 2], "oracle": answers[i]})


def main(tier, seed):
    quiet_pygaps()
    import pygaps
    run = Run(PID, tier, seed, "model_checking")
    rng = random.Random(seed)
    thorough = tier == "thorough"

    r1 = tlc.must_pass("RegistryMC", timeout=600)
    r2 = tlc.must_pass("BackendMC", timeout=600)
    if r1["distinct"] < 1000 or r2["distinct"] < 100:
        raise MachineryError("design-level state spaces collapsed (vacuous model)")
    run.set(states=r1["distinct"] + r2["distinct"], transitions=r1["states_generated"] + r2["states_generated"],
            tlc_runs={"RegistryMC": [r1["distinct"], r1["states_generated"], r1["depth"]], "BackendMC": [r2["distinct"], r2["states_generated"], r2["depth"]]},
            tlc_invariants=["InvShippedStable", "InvShippedFind", "InvFindSound", "InvNoDupName", "StepAllowed",
                            "InvAllowed", "InvNoSilentBackend", "InvUnitHonoured", "InvHistoryFree", "InvBranch"])

    SHIPPED_REF[:] = list(pygaps.ADSORBATE_LIST)
    workdir = tlc.scratch("c20-")
    try:
        STRINGS_REF.clear()
        for a in pygaps.ADSORBATE_LIST:
            STRINGS_REF.update(x.lower() for x in a.alias)
            STRINGS_REF.add(a.name.lower())
        registry_part(run, rng, thorough, workdir)
        db_part(run, rng, thorough, workdir, {"REG_DATA": os.path.join(workdir, "registry.json")})
    finally:
        shutil.rmtree(workdir, ignore_errors=True)
    linked, alpha, ref = backend_part(run, rng, thorough)
    thermo_part(run, rng, thorough, linked, alpha)

    run.set(exhaustive=True,
            rule="registry: every string the shipped registry answers to (names and aliases, case-folded) x {lower, upper, title, swapcase} x "
                 "{Adsorbate.find, BaseIsotherm, PointIsotherm" + (", ModelIsotherm" if thorough else "") + "}, three sources audited and compared; "
                 "store histories over the RegistryMC alphabet (all single stores, " + ("all pairs, 1000 seeded triples" if thorough else "120 seeded pairs") + "); "
                 "database operations (adsorbate_to_db / adsorbate_delete_db, succeeding and refused) on a private copy of default.db, each followed by the lookup sweep; "
                 "fallback: every ordered pair (and seeded triples) of the 14 methods at ONE temperature on one object; 14 property methods x adsorbate kind x calculate x temperature class x unit, call pairs on one object, all shipped adsorbates; "
                 "consistency: all backend-linked adsorbates x temperature grid. non-trivial = not the plain lower-case find / the backend cannot deliver, "
                 "calculate=False, a unit is requested, or a shipped adsorbate; distinct = distinct (site, string, variant) / call configuration / (adsorbate, grid point)")
    run.assume("case folding is Python's str.lower(); TLC treats strings as opaque and the harness checks every rendered variant folds back")
    run.assume("`backend can deliver` is decided by CoolProp's high-level PropsSI interface for the same fluid and temperature, independently of pyGAPS")
    run.assume("temperatures below the triple point are outside the property's quantifier (CoolProp extrapolates there without raising)")
    return run.finish()


def replay(path):
    """./check C20 --replay <file>: show the recorded violation and re-run the check at the recorded
    tier and seed (scenario spaces are enumerated deterministically, so the case is visited again)."""
    with open(path) as f:
        rec = json.load(f)
    print("replaying", json.dumps(rec.get("sig"), sort_keys=True))
    return main(rec.get("tier", "quick"), int(rec.get("seed", 0)))
