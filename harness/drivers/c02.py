"""C02 - permanent conversions of a PointIsotherm over any conversion history.

1. TLC checks spec/IsoConvertMC exhaustively: over all histories of the implementation-shaped
   transition relation the isotherm stays valid, the data monomials equal 'original converted
   directly to the current labels', returning to the start labels restores the original, and every
   step is one the prescriptive relation (IsoConvert!Judge) allows.
2. Step conformance (pattern A): every (label state, operation) of the factorised spaces is executed
   on a real PointIsotherm; spec/IsoConvertOracle judges (pre labels, op, outcome, post labels) and
   supplies the monomials by which the columns must have changed; the harness evaluates them.
3. Walks: TLC -simulate behaviours of IsoConvertMC and seeded random histories (incl. convert(),
   degenerate and refused calls) are replayed with every step judged; finally the isotherm is
   converted back to its starting representation and compared with the original numbers.
"""
import itertools
import os
import random
import re

import numpy

from ..common import Run, exc_class, MachineryError, quiet_pygaps
from .. import tlc
from ..units_common import Atoms, enc, sparse, n2, custom_adsorbate, custom_material, close
from ..iso_common import (PRES_U, MOLAR_U, MASS_U, VOL_U, MODES, LBASES, MBASES, ALL_LMU, lunits, munits,
                          labels_of, make_point, snapshot, const_ratio, revalidate, enc_temp)

PID = "C02"
TOL = 1e-9
BASE = {"pm": "absolute", "pu": "bar", "lb": "molar", "lu": "mmol", "mb": "mass", "mu": "g", "tu": "K"}
BOGUS = "furlong"


def all_p():
    return [("absolute", u) for u in PRES_U] + [("relative", "none"), ("relative%", "none")]


def all_l():
    return [(b, u) for b in ("mass", "molar", "volume_gas", "volume_liquid") for u in lunits(b)] + [("fraction", "none"), ("percent", "none")]


def all_m():
    return [(b, u) for b in MBASES for u in munits(b)]


def state(p=None, l=None, m=None, t=None):
    s = dict(BASE)
    if p:
        s["pm"], s["pu"] = p
    if l:
        s["lb"], s["lu"] = l
    if m:
        s["mb"], s["mu"] = m
    if t:
        s["tu"] = t
    return s


# ---------------------------------------------------------------- operations
def op_enc(op):
    """python-level op -> spec record"""
    k = op["k"]
    if k == "CP":
        return {"k": k, "a": enc(op["a"], MODES), "u": enc(op["u"], PRES_U)}
    if k == "CL":
        return {"k": k, "a": enc(op["a"], LBASES), "u": enc(op["u"], ALL_LMU)}
    if k == "CM":
        return {"k": k, "a": enc(op["a"], MBASES), "u": enc(op["u"], ALL_LMU)}
    if k == "CT":
        return {"k": k, "a": "none", "u": enc_temp(op["u"])}
    if k == "CV":
        return {"k": k, "a": "none", "u": "none",
                "pa": enc(op["pa"], MODES), "pu": enc(op["pu"], PRES_U),
                "la": enc(op["la"], LBASES), "lu": enc(op["lu"], ALL_LMU),
                "ma": enc(op["ma"], MBASES), "mu": enc(op["mu"], ALL_LMU)}
    raise MachineryError(k)


def op_do(iso, op):
    k = op["k"]
    if k == "CP":
        return iso.convert_pressure(mode_to=op["a"], unit_to=op["u"])
    if k == "CL":
        return iso.convert_loading(basis_to=op["a"], unit_to=op["u"])
    if k == "CM":
        return iso.convert_material(basis_to=op["a"], unit_to=op["u"])
    if k == "CT":
        return iso.convert_temperature(unit_to=op["u"])
    if k == "CV":
        return iso.convert(pressure_mode=op["pa"], pressure_unit=op["pu"], loading_basis=op["la"], loading_unit=op["lu"],
                           material_basis=op["ma"], material_unit=op["mu"])
    raise MachineryError(k)


DEG = [None, "", BOGUS]


# unknown names also in the form "valid name in another letter case" (the tables are exact-match)
def ops_p():
    return [{"k": "CP", "a": a, "u": u} for a in list(MODES) + DEG + ["Relative", "ABSOLUTE"] for u in list(PRES_U) + DEG + ["KPA"]]


def ops_l():
    return [{"k": "CL", "a": a, "u": u} for a in list(LBASES) + DEG + ["Molar"] for u in list(ALL_LMU) + DEG + ["MMOL"]]


def ops_m():
    return [{"k": "CM", "a": a, "u": u} for a in list(MBASES) + DEG + ["Mass"] for u in list(ALL_LMU) + DEG + ["KG"]]


def ops_t():
    return [{"k": "CT", "a": None, "u": u} for u in ("K", "°C", "C", "c", None, "", "F")]


def random_cv(rng):
    def pick(vals, p_none=0.45):
        return None if rng.random() < p_none else rng.choice(vals)
    return {"k": "CV", "pa": pick(list(MODES) + [BOGUS, "Relative"], 0.5), "pu": pick(list(PRES_U) + [BOGUS, "KPA"], 0.5),
            "la": pick(list(LBASES) + [BOGUS, "Molar"], 0.5), "lu": pick(list(ALL_LMU) + [BOGUS, "MMOL"], 0.5),
            "ma": pick(list(MBASES) + [BOGUS, "Mass"], 0.5), "mu": pick(list(ALL_LMU) + [BOGUS, "KG"], 0.5)}


def targeted_cv(rng, s):
    """a convert() call with a fully specified valid target for a random subset of quantities"""
    op = {"k": "CV", "pa": None, "pu": None, "la": None, "lu": None, "ma": None, "mu": None}
    if rng.random() < 0.7:
        p = rng.choice(all_p())
        op["pa"], op["pu"] = p[0], (None if p[1] == "none" else p[1])
    if rng.random() < 0.7:
        l = rng.choice(all_l())
        op["la"], op["lu"] = l[0], (None if l[1] == "none" else l[1])
    if rng.random() < 0.6:
        m = rng.choice(all_m())
        op["ma"], op["mu"] = m
    return op


# ---------------------------------------------------------------- fixtures
class Fixture:
    def __init__(self, name, ads, temp, mat):
        self.name, self.ads, self.temp, self.mat = name, ads, temp, mat
        self.atoms = Atoms(ads, temp, mat)
        self.avail = sorted(a for a in ("psat", "M", "rhoLmass", "rhoLmol", "rhoGmass", "rhoGmol", "rhomat", "Mmat") if a in self.atoms.vals)


def fixtures():
    return [
        Fixture("N2@77.344/full material", n2(), 77.344, custom_material()),
        Fixture("custom adsorbate with user properties", custom_adsorbate("verif_gas_a"), 298.15, custom_material("verif_mat_b", 0.913, 77.7)),
        Fixture("custom adsorbate without properties, material without properties", custom_adsorbate("verif_gas_bare", with_props=False), 300.0, custom_material("verif_mat_bare", None, None)),
        Fixture("N2@77.344/material with density only", n2(), 77.344, custom_material("verif_mat_d", 2.2, None)),
        Fixture("custom adsorbate without properties, full material", custom_adsorbate("verif_gas_bare2", with_props=False), 300.0, custom_material()),
    ]


DATASETS = [
    dict(pressure=[0.11, 0.35, 0.62, 0.9, 0.55, 0.2], loading=[1.3, 2.9, 4.4, 5.1, 4.6, 3.3], branch=[0, 0, 0, 0, 1, 1],
         extra={"enthalpy": [5.5, 4.4, 3.3, 2.2, 1.1, 0.5], "note": ["a", "b", "c", "d", "e", "f"]},
         meta={"operator": "verif", "iso_type": "calorimetry", "n_runs": 3}),
    dict(pressure=[2.0e-6, 4.0e-4, 7.5e-2], loading=[1.0e-5, 3.3e-3, 8.25e4], branch=None, extra=None, meta={"comment": "wide range"}),
    dict(pressure=[42.0], loading=[0.77], branch=[0], extra={"temp_cell": [301.2]}, meta=None),
]


# ---------------------------------------------------------------- one step
class Step:
    __slots__ = ("rec", "fix", "rp", "rl", "dts", "tk_ok", "raised", "exc", "unchanged", "aux", "reval", "ctx", "const_p", "const_l")


def do_step(iso, op, fix, ctx, check_reval):
    pre = snapshot(iso)
    st = Step()
    st.fix, st.ctx = fix, ctx
    try:
        op_do(iso, op)
        st.raised, st.exc = False, None
    except Exception as e:
        st.raised, st.exc = True, exc_class(e)
    post = snapshot(iso)
    st.rec = {"s": pre["labels"], "op": op_enc(op), "out": "raised" if st.raised else "ok", "s2": post["labels"], "av": fix.avail}
    st.unchanged = bool(numpy.array_equal(pre["pressure"], post["pressure"]) and numpy.array_equal(pre["loading"], post["loading"])
                        and pre["t_stored"] == post["t_stored"])
    st.rp = const_ratio(post["pressure"], pre["pressure"])
    st.rl = const_ratio(post["loading"], pre["loading"])
    st.dts = post["t_stored"] - pre["t_stored"]
    st.tk_ok = abs(post["t_kelvin"] - pre["t_kelvin"]) < 1e-9
    aux = [k for k in ("aux", "columns", "index", "properties", "material", "adsorbate") if pre[k] != post[k]]
    st.aux = aux
    st.reval = None
    if check_reval or st.raised:
        try:
            revalidate(iso)
            st.reval = True
        except Exception as e:
            st.reval = exc_class(e) + ": " + str(e)[:100]
    return st


def op_class(rec):
    op = rec["op"]
    if op["k"] == "CV":
        return "convert"
    def cls(x):
        return x if x in ("none", "empty", "bogus") else "given"
    return f"{op['k']}(basis/mode={cls(op['a'])},unit={cls(op['u'])})"


def judge(run, st, ans):
    rec = st.rec
    s, s2 = rec["s"], rec["s2"]
    base = {"site": {"CP": "convert_pressure", "CL": "convert_loading", "CM": "convert_material", "CT": "convert_temperature", "CV": "convert"}[rec["op"]["k"]],
            "op_class": op_class(rec), "from_pm": s["pm"], "from_lb": s["lb"], "from_mb": s["mb"], "outcome": rec["out"]}
    detail = {"pre": s, "op": rec["op"], "post": s2, "exception": st.exc, "fixture": st.fix.name, "context": st.ctx}
    if st.aux:
        run.violation({**base, "observed": "conversion altered " + "+".join(st.aux)}, detail)
    if st.reval not in (None, True):
        run.violation({**base, "observed": "isotherm no longer accepted by its own constructor", "post_labels": _lab(s2)}, {**detail, "constructor": st.reval})
    clause = ans["clause"]
    if clause == "pre_state_invalid_not_judged":
        run.add("not_judged_invalid_pre_state")
        return
    if clause != "ok":
        run.violation({**base, "observed": clause, "post_pu": s2["pu"], "post_lu": s2["lu"], "post_mu": s2["mu"], "post_tu": s2["tu"]}, detail)
        return
    if st.raised and rec["op"]["k"] != "CV":
        if not st.unchanged:
            run.violation({**base, "observed": "refused call changed the data"}, detail)
        return
    # (a refused convert() keeps the completed steps: its data are judged like a successful call)
    # successful call: data must have changed by exactly the monomials of (pre labels -> post labels)
    if not st.tk_ok:
        run.violation({**base, "observed": "kelvin temperature changed"}, detail)
    if abs(st.dts + ans["dtk"] * 273.15) > 1e-9:
        run.violation({**base, "observed": "stored temperature offset wrong"}, {**detail, "delta": st.dts})
    for col, r, vec in (("pressure", st.rp, ans["dp"]), ("loading", st.rl, ans["dl"])):
        if r is None:
            run.violation({**base, "observed": f"{col} column not scaled by one constant factor"}, detail)
            continue
        exp = st.fix.atoms.value(vec)
        if exp is None:
            run.add("not_judged_constant_unavailable")
            continue
        if not close(r, exp, TOL):
            run.violation({**base, "observed": f"{col} data inconsistent with labels", "to_pm": s2["pm"], "to_lb": s2["lb"], "to_mb": s2["mb"],
                           "observed_over_expected": float(f"{r / exp:.6g}")}, {**detail, "ratio": r, "expected": exp, "monomial": sparse(vec)})
    if len(st.fix.avail) == 8 and (ans["impl_out"] != rec["out"] or ans["impl_s"] != s2):
        run.add("model_drift")
        if len(run.notes) < 5:
            run.note(f"MODEL-DRIFT {rec['op']} from {s}: observed {rec['out']} {s2}, Impl predicts {ans['impl_out']} {ans['impl_s']}")


def _lab(s):
    return "/".join(str(s[k]) for k in ("pm", "pu", "lb", "lu", "mb", "mu", "tu"))


def flush(run, steps):
    if not steps:
        return
    answers = tlc.oracle("IsoConvertOracle", [st.rec for st in steps], timeout=1800, chunk=15000)
    for st, ans in zip(steps, answers):
        judge(run, st, ans)
    run.add("traces_validated_against_impl", len(steps))
    steps.clear()


# ---------------------------------------------------------------- TLC-generated walks
def spec_op_to_py(o):
    """operation record of the spec (strings) -> python-level op"""
    def d(x):
        return {"none": None, "empty": "", "bogus": BOGUS, "degC": "°C"}.get(x, x)
    if o["k"] == "CV":
        return {"k": "CV", **{f: d(o[f]) for f in ("pa", "pu", "la", "lu", "ma", "mu")}}
    return {"k": o["k"], "a": d(o["a"]), "u": d(o["u"])}


def tlc_walks(num_per_worker, depth, seed, workers=8):
    """behaviours of IsoConvertMC (part ALL) produced by `tlc -simulate`: list of (start labels, [(op, predicted labels)])"""
    import glob
    import shutil
    d = tlc.scratch("walk-")
    try:
        res = tlc.simulate("IsoConvertMC", "IsoConvertSim", num=num_per_worker, depth=depth, seed=seed, workers=workers,
                           trace_prefix=os.path.join(d, "tr"), timeout=900)
        if res["errors"]:
            raise MachineryError("IsoConvertMC simulation reported: " + "; ".join(res["errors"][:3]))
        walks = []
        for f in sorted(glob.glob(os.path.join(d, "tr_*"))):
            states = tlc.parse_trace_file(f)
            if len(states) < 2:
                continue
            start = tlc.parse_flat_record(states[0]["start"])
            ops = [(tlc.parse_flat_record(st["lastop"]), tlc.parse_flat_record(st["s"])) for st in states[1:]]
            walks.append((start, ops))
        return walks
    finally:
        shutil.rmtree(d, ignore_errors=True)


def main(tier, seed):
    quiet_pygaps()
    run = Run(PID, tier, seed, "model_checking")
    rng = random.Random(seed)
    thorough = tier == "thorough"

    # ---- 1. exhaustive model checking of the history-level statements
    res = tlc.must_pass("IsoConvertMC", cfg="IsoConvertMCThorough" if thorough else "IsoConvertMC", timeout=1500)
    run.set(states=res["distinct"], transitions=res["states_generated"], tlc_depth=res["depth"],
            tlc_invariants=["Valid", "Consistent", "RoundTrip", "StepsAllowed"])

    fx = fixtures()
    steps = []
    nsteps = 0

    def step(s, op, fix, ctx, data=None, reval=False):
        nonlocal nsteps
        d = data or DATASETS[nsteps % len(DATASETS)]
        iso = make_point(s, fix.ads, fix.mat, fix.temp, **d)
        st = do_step(iso, op, fix, ctx, reval)
        steps.append(st)
        nsteps += 1
        rec = st.rec
        trivial = (not st.raised) and rec["s"] == rec["s2"]
        run.count(("step", _lab(rec["s"]), repr(sorted(rec["op"].items())), fix.name), nontrivial=not trivial)
        if len(steps) >= 15000:
            flush(run, steps)
        return st

    # ---- 2. exhaustive single steps over the factorised label space
    for p in all_p():
        for op in ops_p():
            for fi in (0, 1, 2):
                step(state(p=p), op, fx[fi], "single/P", reval=True)
    for t in ("K", "degC"):
        for op in ops_t():
            step(state(t=t), op, fx[0], "single/T", reval=True)
    lm_states = [(l, m) for l in all_l() for m in all_m()]
    lm_ops = ops_l() + ops_m()
    share = 1.0 if thorough else 0.045
    for i, (l, m) in enumerate(lm_states):
        for j, op in enumerate(lm_ops):
            if share < 1.0 and rng.random() > share:
                continue
            fi = (0, 1, 0, 1, 2, 3)[(i + j) % 6]
            step(state(l=l, m=m), op, fx[fi], "single/LM", reval=(rng.random() < 0.05))
    # isotherms CREATED in percent / fraction keep whatever loading unit they were given (the constructor does not blank it):
    # every material and loading step from such label states
    for l in (("percent", "mmol"), ("fraction", "g"), ("percent", "cm3(STP)")):
        for m in all_m():
            for op in ops_m() + ops_l():
                if not thorough and rng.random() > 0.12:
                    continue
                step(state(l=l, m=m), op, fx[(0, 1, 2, 3)[nsteps % 4]], "single/LM leftover unit", reval=(rng.random() < 0.05))
    run.set(single_steps=nsteps)

    # ---- full-product samples (independence of the factors), with convert()
    nprod = 6000 if thorough else 800
    for _ in range(nprod):
        s = state(p=rng.choice(all_p()), l=rng.choice(all_l()), m=rng.choice(all_m()), t=rng.choice(("K", "degC")))
        r = rng.random()
        if r < 0.35:
            op = random_cv(rng)
        elif r < 0.6:
            op = targeted_cv(rng, s)
        else:
            op = rng.choice(rng.choice((ops_p(), ops_l(), ops_m(), ops_t())))
        step(s, op, fx[rng.choice((0, 1, 1, 2, 3))], "product", reval=(rng.random() < 0.2))
    flush(run, steps)

    # ---- targeted: conversions that need a constant the adsorbate / material cannot supply
    for l in all_l():
        for m in all_m():
            for fi in (2, 3, 4):
                for op in ([{"k": "CM", "a": b, "u": munits(b)[0]} for b in MBASES if b != m[0]]
                           + [{"k": "CL", "a": b, "u": (lunits(b) or (None,))[0]} for b in ("mass", "volume_liquid", "fraction") if b != l[0]]):
                    if l[0] in ("fraction", "percent") or rng.random() < 0.15 or thorough:
                        step(state(l=l, m=m), op, fx[fi], "targeted/unavailable constant", reval=True)
    flush(run, steps)

    # ---- 3a. behaviours generated by TLC (-simulate of IsoConvertMC over the full label product) replayed on real objects
    walks = tlc_walks(40 if thorough else 6, 12, seed + 1)
    drift_walks = 0
    for wi, (s0, ops) in enumerate(walks):
        fix = fx[wi % 2]
        iso = make_point(s0, fix.ads, fix.mat, fix.temp, **DATASETS[wi % len(DATASETS)])
        for k, (sop, predicted) in enumerate(ops):
            st = do_step(iso, spec_op_to_py(sop), fix, f"tlc walk {wi} step {k}", True)
            steps.append(st)
            run.count(("tlcwalk", wi, k), nontrivial=st.rec["s"] != st.rec["s2"])
            if st.rec["s2"] != predicted:
                drift_walks += 1
                break     # the real object left the behaviour TLC generated: the steps so far are judged, stop following it
        if wi < 1:
            run.sample({"tlc_behaviour_start": s0, "ops": [o for o, _ in ops][:6]})
    run.set(tlc_behaviours_replayed=len(walks), tlc_behaviours_left_early=drift_walks)
    flush(run, steps)

    # ---- 3b. walks: seeded histories on one object, every step judged, then back to the start
    nwalks = 1500 if thorough else 150
    walk_steps = 0
    for w in range(nwalks):
        fix = fx[w % 2]
        s0 = state(p=rng.choice(all_p()), l=rng.choice(all_l()), m=rng.choice(all_m()), t=rng.choice(("K", "degC")))
        d = DATASETS[w % len(DATASETS)]
        iso = make_point(s0, fix.ads, fix.mat, fix.temp, **d)
        orig = snapshot(iso)
        hist = []
        for k in range(12):
            r = rng.random()
            if r < 0.25:
                op = targeted_cv(rng, labels_of(iso))
            elif r < 0.35:
                op = random_cv(rng)
            else:
                op = rng.choice(rng.choice((ops_p(), ops_l(), ops_m(), ops_l(), ops_m(), ops_t())))
            st = do_step(iso, op, fix, f"walk {w} step {k}", True)
            steps.append(st)
            hist.append(st.rec["op"])
            walk_steps += 1
            run.count(("walk", w, k), nontrivial=st.rec["s"] != st.rec["s2"])
        # return to the starting representation and compare with the original numbers
        cur_mb = labels_of(iso)["mb"]
        back = [
            {"k": "CT", "a": None, "u": "K" if s0["tu"] == "K" else "°C"},
            {"k": "CM", "a": None, "u": {"mass": "g", "volume": "cm3", "molar": "mol"}.get(cur_mb, "g")},
            {"k": "CM", "a": s0["mb"], "u": s0["mu"]},
            {"k": "CV", "pa": s0["pm"], "pu": None if s0["pu"] == "none" else s0["pu"], "la": s0["lb"], "lu": None if s0["lu"] == "none" else s0["lu"],
             "ma": s0["mb"], "mu": s0["mu"]},
        ]
        for op in back:
            steps.append(do_step(iso, op, fix, f"walk {w} return", True))
            walk_steps += 1
        fin = snapshot(iso)
        sig = {"site": "history", "observed": None, "start": _lab(s0)}
        if fin["labels"] != orig["labels"]:
            # the return path was refused somewhere; the individual steps are judged by the oracle
            run.add("walks_not_returned")
        else:
            ok = (numpy.allclose(fin["pressure"], orig["pressure"], rtol=1e-9, atol=0) and numpy.allclose(fin["loading"], orig["loading"], rtol=1e-9, atol=0)
                  and abs(fin["t_stored"] - orig["t_stored"]) < 1e-9)
            if not ok:
                run.violation({**sig, "observed": "round trip over a history does not restore the original numbers"},
                              {"start": s0, "history": hist, "pressure": [orig["pressure"].tolist(), fin["pressure"].tolist()],
                               "loading": [orig["loading"].tolist(), fin["loading"].tolist()]})
            for k in ("aux", "columns", "index", "properties"):
                if fin[k] != orig[k]:
                    run.violation({**sig, "observed": f"history altered {k}"}, {"start": s0, "history": hist})
        if w < 2:
            run.sample({"start": s0, "fixture": fix.name, "history": hist, "returned_to_start": fin["labels"] == orig["labels"]})
        if len(steps) >= 15000:
            flush(run, steps)
    flush(run, steps)
    run.set(walks=nwalks, walk_steps=walk_steps, exhaustive=bool(thorough),
            rule="(label state, operation) single steps over the factorised spaces P (10 states x 66 ops x 3 fixtures), T (2 x 7), "
                 "LM (513 states x 330 ops; " + ("all" if thorough else "seeded 6% slice") + "), full-product samples incl. convert(), and 12-step histories "
                 "returned to the start; operations include omitted/empty/unknown arguments and impossible targets; non-trivial = the call changed labels or was refused; "
                 "distinct = distinct (pre labels, operation, fixture) / (walk, position)")
    run.assume("float payload independence is sampled (3 data sets incl. extra numeric/text columns, branch marks, metadata), not proved")
    run.assume("adsorbate/material property methods define psat, M, densities (C20)")
    return run.finish()
