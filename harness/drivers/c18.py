"""C18 - kernel (DFT) fitting is non-negative and reproduces the isotherm.

spec/Kernel.tla enumerates the scenario space (weight vectors over the kernel widths: all unit vectors, 30 pairs,
10 dense small-integer vectors (loadings < 100 mmol/g), 2 dense vectors of unphysical magnitude (> 10^4 mmol/g); pressure grids on kernel rows; limits
none/lower/upper/both; spline orders 0-3; rotation = seed) and states the property's clauses (Judge, Refusal);
spec/KernelMC is model-checked (well-formedness, every grid x limits x order combination covered under every
rotation).  The driver reads the kernel file as INPUT data, builds isotherms that are exact non-negative
combinations of kernel columns, runs psd_dft (order 0, the scenario's order, and once more with the points outside
the limits changed) and lets TLC (spec/KernelOracle) decide every clause on the recorded arrays.
"""
import math
import os

# small dense linear algebra only: threaded BLAS is slower here, oversubscribes a shared box and makes the
# optimiser path depend on the thread count; must be set before numpy is first imported
for _v in ("OMP_NUM_THREADS", "OPENBLAS_NUM_THREADS", "MKL_NUM_THREADS"):
    os.environ.setdefault(_v, "1")
import shutil

from ..common import Run, exc_class, MachineryError, quiet_pygaps
from .. import tlc
from ..encode import dec_enc, dec_dec

PID = "C18"
NONE = [0, 0]


def enc(x):
    x = float(x)
    if not math.isfinite(x):
        raise ValueError("non-finite")
    return dec_enc(x)


def encs(a):
    return [enc(x) for x in a]


def user_kernel(path, variant=0, bad=False, row_perm=None):
    """A 5-column kernel file in the documented layout (pressure rows, one column per pore size).
    variant 1: other pore sizes and other isotherms, meant to be stored under the SAME file name elsewhere."""
    # pore sizes cross 10 and 100 nm: the column labels ('0.5', '2.0', '9.5', '12.0', '110.0') sort differently as strings
    widths = [0.5, 2.0, 9.5, 12.0, 110.0] if variant == 0 else [0.6, 1.0, 8.0, 10.0, 32.0]
    pressures = [10 ** (-6 + 5.954 * i / 13) for i in range(14)]
    os.makedirs(os.path.dirname(path), exist_ok=True)
    with open(path, "w", encoding="utf8") as f:
        f.write("," + ",".join(repr(w) for w in widths) + "\n")
        for p in ([pressures[i - 1] for i in row_perm] if row_perm else pressures):      # row order of the file (spec RowPerm)
            row = [(30.0 if variant == 0 else 22.0) / w ** 0.5 * p / (p + (1e-5 if variant == 0 else 3e-5) * w ** 1.5) + 2.0 * p for w in widths]
            cells = [repr(v) for v in row]
            if bad and abs(math.log10(p) + 3.25) < 0.25:
                cells[3] = "n/a#"           # one non-numeric cell in the 4th pore-size column
            f.write(repr(p) + "," + ",".join(cells) + "\n")
    return path


def read_kernel(path):
    import numpy
    import pandas
    with open(path, encoding="utf8") as fp:
        raw = pandas.read_csv(fp, index_col=0)
    raw = raw.sort_index()          # the harness's copy of the table is in ascending pressure whatever the file's row order
    return numpy.asarray(raw.index, dtype=float), numpy.asarray(raw.columns, dtype=float), numpy.asarray(raw.values, dtype=float)


def make_iso(p, load, units=None):
    import pygaps
    if units:       # the isotherm expressed in the kernel's own units (no conversion factor needed to build exact combinations)
        return pygaps.PointIsotherm(pressure=list(p), loading=list(load), material="kernel-sample", adsorbate="N2", temperature=77.0,
                                    pressure_mode=units["pressure_mode"], pressure_unit=units["pressure_unit"], loading_basis=units["loading_basis"],
                                    loading_unit=units["loading_unit"], material_basis=units["material_basis"], material_unit=units["material_unit"])
    return pygaps.PointIsotherm(pressure=list(p), loading=list(load), material="kernel-sample", adsorbate="N2", temperature=77.0,
                                pressure_mode="relative", loading_basis="molar", loading_unit="mmol", material_basis="mass", material_unit="g")


def observe(pk, p, load, kernel, lim, order, units=None):
    if units is None:
        out = pk.psd_dft(make_iso(p, load), kernel=kernel, p_limits=lim, bspline_order=order)
    else:           # units = (the harness's own copy, ONE dictionary object handed to every call)
        out = pk.psd_dft(make_iso(p, load, units[0]), kernel=kernel, p_limits=lim, bspline_order=order, kernel_units=units[1])
    return {"w": encs(out["pore_widths"]), "dist": encs(out["pore_distribution"]), "cum": encs(out["pore_volume_cumulative"]),
            "kl": encs(out["kernel_loading"]), "lim": [int(out["limits"][0]), int(out["limits"][1])], "exc": False}, out


def main(tier, seed):
    import numpy
    quiet_pygaps()
    import pygaps.characterisation.psd_kernel as pk
    from pygaps.data import KERNELS
    run = Run(PID, tier, seed, "exploration")
    thorough = tier == "thorough"

    res = tlc.must_pass("KernelMC", timeout=900)
    run.set(states=res["distinct"], transitions=res["states_generated"], tlc_depth=res["depth"], tlc_invariants=["WellFormed", "Covers", "RowOrdersOk", "AltGridOk"])

    tmp = tlc.scratch("c18-")
    try:
        kernels = {"shipped": ("DFT-N2-77K-carbon-slit", str(KERNELS["DFT-N2-77K-carbon-slit"])),
                   "user5": (None, user_kernel(os.path.join(tmp, "a", "user-kernel-5.csv"))),
                   "user5b": (None, user_kernel(os.path.join(tmp, "b", "user-kernel-5.csv"), variant=1))}
        data = {}
        for name, (arg, path) in kernels.items():
            P, W, M = read_kernel(path)
            data[name] = {"arg": arg or path, "P": P, "W": W, "M": M}
        if data["shipped"]["M"].shape != (177, 77):
            raise MachineryError(f"shipped kernel has shape {data['shipped']['M'].shape}, the property speaks of 77 widths")
        rotations = [(seed + o) % 64 for o in ((0, 21, 42, 63) if thorough else (0,))]
        knames = list(data)
        scen = tlc.oracle("KernelOracle", [{"k": "scen", "nw": len(data[kn]["W"]), "nr": len(data[kn]["P"]), "r": r} for r in rotations for kn in knames], timeout=600)
        plan = []
        for (r, name), ans in zip([(r, kn) for r in rotations for kn in knames], scen):
            for s in ans["scenarios"]:
                s["rot"] = r
                if not thorough and name == "shipped" and s["cls"] != "large" and (s["id"] + seed) % 2 != 0:
                    continue
                if r != rotations[0] and (name != "shipped" or s["cls"] == "large"):
                    continue
                plan.append((name, s, "knots"))
                # the same weights on pressures between the kernel rows (library interpolators supply the columns)
                if name == "shipped" and s["kind"] != "unit" and s["cls"] == "physical" and (thorough or s["id"] % 3 == 0):
                    plan.append((name, s, "between"))

        # kernel-file histories (spec/Kernel.tla Histories): two user kernels with the same file name used in every order;
        # every fit is judged against ITS file's content like a first call
        hq = tlc.oracle("KernelOracle", [{"k": "hist", "nr": len(data["user5"]["P"])}], timeout=300)[0]
        hist = hq["histories"]
        by_kernel = {}
        for (r, name), ans in zip([(r, kn) for r in rotations for kn in knames], scen):
            if r == rotations[0]:
                by_kernel[name] = ans["scenarios"]
        nhist = 0
        for hi_, h in enumerate(hist):
            if not thorough and (hi_ + seed) % 2 != 0:
                continue
            nhist += 1
            for t_, kn in enumerate(h):
                s = dict(by_kernel[kn][(hi_ + 3 * t_) % len(by_kernel[kn])])
                s["rot"] = ("history", hi_, t_)
                plan.append((kn, s, "knots"))
        # one path, changing content (spec FileHistories): a malformed kernel file, then the corrected file under the same path
        fh = hq["file_histories"]
        # the same user kernel written with its pressure rows in other orders (spec RowOrders): results of the ascending file
        for ro in hq["row_orders"]:
            if ro["order"] == "ascending":
                continue
            rname = "user5-rows-" + ro["order"]
            rpath = user_kernel(os.path.join(tmp, ro["order"], "user-kernel-5.csv"), 0, row_perm=ro["perm"])
            kernels[rname] = (None, rpath)
            P_, W_, M_ = read_kernel(rpath)
            data[rname] = {"arg": rpath, "P": P_, "W": W_, "M": M_}
            for s in by_kernel["user5"]:
                s = dict(s)
                s["rot"] = ("row-order", ro["order"])
                plan.append((rname, s, "knots"))
        # a user kernel tabulated in other units (spec KernelUnits); one kernel_units dictionary object for all its calls
        upath = user_kernel(os.path.join(tmp, "units", "user-kernel-5.csv"), 0)
        kernels["user5-units"] = (None, upath)
        P_, W_, M_ = read_kernel(upath)
        data["user5-units"] = {"arg": upath, "P": P_, "W": W_, "M": M_, "units": (dict(hq["kernel_units"]), dict(hq["kernel_units"]))}
        for s in by_kernel["user5"]:
            s = dict(s)
            s["rot"] = ("kernel-units",)
            plan.append(("user5-units", s, "knots"))
        # grid histories (spec GridHistories): grids with equal length and end points but other interior pressures, one after the other
        ngrid = 0
        for kn in ("shipped", "user5"):
            cands = [s for s in by_kernel[kn] if s["rows_alt"] and s["cls"] == "physical"]
            for gi, s0 in enumerate(cands[(seed % 3)::max(1, len(cands) // (6 if thorough else 3))][: (6 if thorough else 3)]):
                for hi2, gh in enumerate(hq["grid_histories"]):
                    ngrid += 1
                    for sj, which in enumerate(gh):
                        s = dict(s0)
                        s["rows"] = s0["rows"] if which == "A" else s0["rows_alt"]
                        s["limits"], s["order"] = "none", 0
                        s["rot"] = ("grid-history", gi, hi2, sj)
                        plan.append((kn, s, "knots"))
        run.set(grid_histories=ngrid)
        data["user5-rewritten"] = data["user5"]
        for fi, steps in enumerate(fh):
            fpath = os.path.join(tmp, f"f{fi}", "user-kernel-5.csv")
            for sj, st in enumerate(steps):
                s = dict(by_kernel["user5"][(2 * fi + sj + seed) % len(by_kernel["user5"])])
                s["rot"] = ("file-history", fi, sj)
                writer = (lambda pth=fpath, bad=(st["state"] == "bad"): user_kernel(pth, 0, bad=bad))
                plan.append(("user5-rewritten", s, "knots", fpath, writer, st["judged"]))
        import time
        t_fit = time.time()
        judge_q, meta = [], []
        for name, s, gridkind, *rest in plan:
            d = data[name]
            kernel_arg = rest[0] if rest else None
            if rest and rest[1] is not None:
                rest[1]()                       # file history: (re)write the kernel file just before this use
                if not rest[2]:                 # a 'bad' content step: whatever the library answers is accepted (spec FileStepJudged)
                    try:
                        pk.psd_dft(make_iso(d["P"], d["M"][:, 0]), kernel=kernel_arg, bspline_order=0)
                        run.add("bad_kernel_file_accepted")
                    except Exception:
                        run.add("bad_kernel_file_refused")
                    continue
            op_exc = None
            rows = numpy.array(s["rows"]) - 1
            x = numpy.zeros(len(d["W"]))
            scale = dec_dec(s["scale"])
            for col, wt in s["cols"]:
                x[col - 1] = wt * scale
            sig = {"site": "psd_dft", "kernel": name, "magnitude": s["cls"], "grid": gridkind}
            try:
                if gridkind == "knots":
                    p = d["P"][rows]
                    Kmat = d["M"][rows, :]
                else:
                    p = numpy.sqrt(d["P"][rows][:-1] * d["P"][rows][1:])
                    kern = pk._load_kernel(kernels[name][1])
                    Kmat = numpy.array([kern[c](p) for c in kern]).T
                load = Kmat @ x
                a, b = s["pos"]["a"], s["pos"]["b"]
                n = len(p)
                a, b = min(a, n - 5), min(b, n - 1)
                lo = math.sqrt(p[a - 1] * p[a]) if s["limits"] in ("lower", "both") else None
                hi = math.sqrt(p[b - 1] * p[b]) if s["limits"] in ("upper", "both") else None
                inside = [(lo is None or v >= lo) and (hi is None or v < hi) for v in p]
                load2 = numpy.array([l if ins else (l * 1.5 + 0.3 if v > (hi or 2) else l * 0.4) for l, ins, v in zip(load, inside, p)])
                lim = (lo, hi)
                p2 = numpy.array(p, dtype=float)
                if hi is not None:
                    # further points BEYOND the kernel's pressure range, above the upper limit: still outside the limits
                    pm_ = float(d["P"].max())
                    p2 = numpy.append(p2, [pm_ * 1.0008, pm_ + 0.8 * (1.0 - pm_)])
                    load2 = numpy.append(load2, [load2[-1] * 1.1 + 0.1, load2[-1] * 1.2 + 0.2])
                karg = d["arg"] if kernel_arg is None else kernel_arg
                ku = d.get("units")
                o0, raw0 = observe(pk, p, load, karg, lim, 0, ku)
                ok = o0 if s["order"] == 0 else observe(pk, p, load, karg, lim, s["order"], ku)[0]
                if s["limits"] == "none":
                    op = ok
                else:
                    try:
                        op = observe(pk, p2, load2, karg, lim, s["order"], ku)[0]
                    except Exception as e:
                        op = {"w": [], "dist": [], "cum": [], "kl": [], "lim": [0, 0], "exc": True}
                        op_exc = exc_class(e)
            except MachineryError:
                raise
            except Exception as e:
                c = exc_class(e)
                run.count((name, s["id"], s["rot"], gridkind))
                run.violation({**sig, "clause": "returns", "observed": "exception:" + c}, {"scenario": s, "message": str(e)[:300]})
                continue
            nz = [i for i, v in enumerate(raw0["pore_distribution"]) if v != 0.0]
            win = [j for j, ins in enumerate(inside) if ins]
            useK = gridkind == "knots"
            K = [[[i + 1, enc(Kmat[j, i])] for i in nz] for j in win] if useK else []
            judge_q.append({"k": "judge", "p": encs(p), "load": encs(load), "p2": encs(p2), "load2": encs(load2), "lim": [enc(lo) if lo else NONE, enc(hi) if hi else NONE],
                            "order": s["order"], "wk": encs(d["W"]), "K": K, "useK": useK, "o0": o0, "ok": ok, "op": op})
            meta.append((name, s, gridkind, sig, {"p": [float(v) for v in p[:5]], "load": [float(v) for v in load[:5]], "limits": [lo, hi],
                                                   "reported_limits": o0["lim"], "kernel_loading": [dec_dec(v) for v in o0["kl"][:5]],
                                                   "second_isotherm_tail": [float(v) for v in p2[-3:]], "second_isotherm_exception": op_exc}))

        # refusal of pressures outside the kernel range (raw function and isotherm entry point)
        ref_q, ref_meta = [], []
        d = data["shipped"]
        base = d["P"][::12]
        cases = {"inside": base, "above_max": numpy.append(base, d["P"].max() * 1.0005), "one": numpy.append(base, 1.0),
                 "far_above": numpy.append(base, 1.5), "negative": numpy.insert(base, 0, -0.01), "below_min": numpy.insert(base, 0, d["P"].min() * 0.01)}
        for cname, p in cases.items():
            load = numpy.linspace(1.0, 20.0, len(p))
            for entry in ("psd_dft_kernel_fit", "psd_dft"):
                if entry == "psd_dft" and cname == "negative":
                    continue
                iso = None
                if entry == "psd_dft":
                    try:
                        iso = make_iso(p, load)
                    except Exception:
                        run.add("refusal_cases_skipped_isotherm_not_constructible")
                        continue
                try:
                    if entry == "psd_dft":
                        pk.psd_dft(iso, kernel=d["arg"], bspline_order=0)
                    else:
                        pk.psd_dft_kernel_fit(p, load, kernels["shipped"][1], 0)
                    observed = "value"
                except Exception as e:
                    observed = exc_class(e)
                ref_q.append({"k": "refusal", "p": [enc(v) for v in p], "pmax": enc(d["P"].max()), "pmin": enc(d["P"].min()), "observed": observed})
                ref_meta.append((cname, entry, observed))

        t_fit = time.time() - t_fit
        t_judge = time.time()
        answers = tlc.oracle("KernelOracle", judge_q + ref_q, timeout=1500, chunk=150)
        t_judge = time.time() - t_judge
        run.set(seconds_library_runs=round(t_fit, 1), seconds_tlc_judge=round(t_judge, 1))
        clauses = ("shape", "limits", "nonneg", "cum_mono", "cum_integral", "widths", "wsum", "repro", "order_invariant", "limits_only")
        text = {"shape": "output arrays of different length", "limits": "reported limits / fitted length are not the points inside the requested limits",
                "nonneg": "negative distribution value", "cum_mono": "cumulative volume decreases", "cum_integral": "cumulative volume is not the running integral of the reported distribution",
                "widths": "reported widths are not the kernel widths (order 0) / leave the kernel range", "wsum": "kernel-weighted sum of the distribution differs from kernel_loading",
                "repro": "success reported but the fitted isotherm differs from the exact kernel combination", "order_invariant": "fitted isotherm depends on the smoothing order",
                "limits_only": "changing / adding points outside the limits (also beyond the kernel range) changed the result or was refused"}
        worst = 0.0
        for (name, s, gridkind, sig, smp), ans in zip(meta, answers):
            run.count((name, s["id"], s["rot"], gridkind), n=3)
            if not ans["pair_wellformed"]:
                raise MachineryError("metamorphic pair malformed")
            if s["cls"] == "physical":
                worst = max(worst, dec_dec(ans["rss"]))
            for c in clauses:
                if not ans[c]:
                    run.violation({**sig, "clause": c, "observed": text[c]},
                                  {"scenario": {k: s[k] for k in ("id", "kind", "cls", "cols", "scale", "limits", "order", "pos")}, "rows_first": s["rows"][:3],
                                   "rss": dec_dec(ans["rss"]), **smp})
            if len(run.cov["samples"]) < 4 and (s["id"] + seed) % 23 == 0:
                run.sample({"kernel": name, "weights": s["cols"][:4], "scale": dec_dec(s["scale"]), "grid": gridkind, "limits_kind": s["limits"], "order": s["order"],
                            "rss": dec_dec(ans["rss"]), **smp})
        for (cname, entry, observed), ans in zip(ref_meta, answers[len(judge_q):]):
            run.count(("refusal", cname, entry))
            if not ans["ok"]:
                run.violation({"site": entry, "clause": "refusal", "pressures": cname, "observed": observed, "expected": ans["expected"]}, {})
        run.add("traces_validated_against_impl", len(judge_q) + len(ref_q))
        run.set(kernel_file_histories=nhist, scenarios_run=len(judge_q), refusal_cases=len(ref_q), worst_rss_physical=worst, exhaustive=False,
                rule="scenario = weight vector (77 unit vectors, 30 pairs, 10 dense small-integer vectors at physical magnitude, 2 dense at 10^3-10^4 mmol/g; 5+3+2 on the "
                     "5-column user kernels written by the harness (pore sizes crossing 10 and 100 nm): two files with the same name in different directories, also used in all 16 orders of length 4, "
                     "one path whose content goes malformed -> corrected, the same table with descending / shuffled pressure rows; grid histories: grids sharing length and "
                     "end pressures with other interior pressures fitted one after the other) x (pressure grid on kernel rows, limits none/lower/upper/both, spline order 0-3) assigned by rotation "
                     "(seed) so that all 64 combinations occur, enumerated by spec/Kernel.tla; plus the non-unit vectors on pressures between the kernel rows; "
                     + ("thorough: all, under 4 rotations" if thorough else "quick: every 2nd shipped-kernel scenario, all user-kernel ones")
                     + "; each scenario = 3 library runs (order 0, scenario order, points outside the limits changed); distinct = (kernel, scenario id, rotation, grid kind); all non-trivial")
        run.assume("optimiser tolerance read as: residual sum of squares <= 0.2 (mmol/g)^2 (SLSQP ftol 1e-4 on the sum of squares; <= 2e-3 observed on the unchanged tree)")
        run.assume("0 <= p < smallest kernel pressure is not judged (documented zero row); the cumulative volume may be the right-rectangle or the trapezoid running integral from 0")
        return run.finish()
    finally:
        shutil.rmtree(tmp, ignore_errors=True)
