"""C01 - unit, pressure-mode and basis conversions.

1. TLC checks spec/UnitsMC exhaustively: the implementation tables (Impl*) agree with the
   definitions (Canon) on every path through the representation graph.
2. Conformance (step oracle): every ordered pair of representations (and every degenerate
   argument pattern) is executed on the real c_pressure/c_loading/c_material/c_temperature with
   scalar, 0-d, 1-d and Series values; spec/UnitsOracle answers with the allowed outcomes; the
   comparator evaluates the allowed monomials numerically.
3. The implementation's unit tables are audited against SI definitions.
4. Triples (a -> b -> c vs a -> c) on the real code.
"""
import itertools
import random

from ..common import Run, exc_class, MachineryError, quiet_pygaps
from .. import tlc
from ..units_common import dec_slot, late_material, rebound_material, Atoms, enc, dec, sparse, n2, custom_adsorbate, custom_material, ratio_of, close, reference_constants

PID = "C01"
TOL = 1e-9


def value_forms(rng):
    import numpy
    import pandas
    mags = [1e-6, 3.7e-3, 0.731, 12.5, 4.2e3, 9.9e5]
    m = rng.choice(mags)
    return [
        ("scalar", m * 1.37),
        ("0d", numpy.array(m * 2.11)),
        ("1d", numpy.array([m, 2.5 * m, 7.25 * m])),
        ("series", pandas.Series([m * 0.5, m * 3.0], index=[5, 9])),
    ]


def call(kind, f, t, m, value, ads, temp, mat):
    import pygaps.units.converter_mode as cm
    if kind == "P":
        return cm.c_pressure(value, f[0], t[0], f[1], t[1], adsorbate=ads, temp=temp)
    if kind == "L":
        return cm.c_loading(value, f[0], t[0], f[1], t[1], adsorbate=ads, temp=temp, basis_material=m[0], unit_material=m[1])
    if kind == "M":
        return cm.c_material(value, f[0], t[0], f[1], t[1], material=mat)
    raise MachineryError(kind)


SLOTS = {"P": ("pmode", "punit"), "L": ("lbasis", "lunit"), "M": ("mbasis", "munit")}


def observe(kind, f, t, m, forms, ads, temp, mat, variant=0, same=None):
    """Run the real conversion with each value form; returns list of (form, outcome)."""
    import numpy
    import pandas
    obs = []
    sl = SLOTS[kind]
    pf = [dec_slot(x, s, variant) for x, s in zip(f, sl)]
    # every other record uses the very same unknown string on both sides (an unknown unit is refused even as an identity)
    off = (variant // 5) % 2 if same is None else (0 if same else 1)
    pt = [dec_slot(x, s, variant + off) for x, s in zip(t, sl)]
    pm = [dec_slot(x, s, variant + 2) for x, s in zip(m, SLOTS["M"])]
    for name, val in forms:
        try:
            out = call(kind, pf, pt, pm, val, ads, temp, mat)
        except Exception as e:
            obs.append((name, ("exc", exc_class(e), str(e)[:120])))
            continue
        # container type must survive
        ok_type = True
        if name == "1d":
            ok_type = isinstance(out, numpy.ndarray) and out.shape == val.shape
        elif name == "series":
            ok_type = isinstance(out, pandas.Series) and list(out.index) == list(val.index)
        elif name in ("scalar", "0d"):
            ok_type = numpy.ndim(out) == 0
        r = ratio_of(out, val)
        obs.append((name, ("val", r, ok_type)))
    return obs


def judge(run, site, kind, f, t, m, answer, obs, atoms, needs_backend_ok=True):
    allowed = answer["allowed"]
    impl = answer["impl"]
    pe_ok = any(a["kind"] == "PE" for a in allowed)
    vals = [a for a in allowed if a["kind"] == "val"]
    for form, o in obs:
        cfg = {"site": site, "kind": kind, "from": f, "to": t, "mat": m if kind == "L" else None, "form": form}
        if o[0] == "exc":
            cls = o[1]
            if cls == "ParameterError" and pe_ok:
                continue
            if cls == "CalculationError" and vals:
                run.add("not_judged_backend")
                continue
            run.violation(
                {**_sig(cfg), "observed": "exception:" + cls, "expected": "ParameterError" if pe_ok and not vals else ("value" if vals and not pe_ok else "value or ParameterError"),
                 "impl_predicts": impl["kind"] + (":" + impl.get("what", "") if impl["kind"] == "other" else "")},
                {"message": o[2], "allowed": allowed})
            continue
        ratios, ok_type = o[1], o[2]
        if not vals:
            run.violation({**_sig(cfg), "observed": "value", "expected": "ParameterError", "impl_predicts": impl["kind"]},
                          {"ratios": ratios, "allowed": allowed})
            continue
        if not ok_type:
            run.violation({**_sig(cfg), "observed": "container type or shape changed", "expected": "same container"}, {"ratios": ratios})
            continue
        exp = [atoms.value(a["vec"]) for a in vals]
        if any(e is None for e in exp):
            run.add("not_judged_backend")
            continue
        good = all(any(close(r, e, TOL) for e in exp) for r in ratios)
        if not good:
            run.violation(
                {**_sig(cfg), "observed": "wrong factor", "observed_over_expected": _fmt(ratios[0] / exp[0]) if exp[0] else "inf"},
                {"ratios": ratios, "expected": exp, "allowed": allowed, "impl": impl})


def _fmt(x):
    return float(f"{x:.6g}")


def _sig(cfg):
    f, t = cfg["from"], cfg["to"]
    return {
        "site": cfg["site"],
        "from_basis": f[0], "from_unit": f[1], "to_basis": t[0], "to_unit": t[1],
        "mat_basis": cfg["mat"][0] if cfg["mat"] else None, "mat_unit": cfg["mat"][1] if cfg["mat"] else None,
        "form": cfg["form"],
    }


def main(tier, seed):
    import numpy
    quiet_pygaps()
    run = Run(PID, tier, seed, "model_checking")
    rng = random.Random(seed)
    thorough = tier == "thorough"

    # ---- 1. exhaustive design-level check
    res = tlc.must_pass("UnitsMC", timeout=900)
    run.set(states=res["distinct"], transitions=res["states_generated"], tlc_depth=res["depth"],
            tlc_invariants=["PathIndependent", "CanonLaws", "ValidConforms"])
    for line in res["out"].splitlines():
        if "ARGSPACE" in line:
            run.set(design_argspace=line.strip())

    # ---- representations from the spec
    reps = tlc.oracle("UnitsOracle", [{"k": "reps", "f": ["a", "b"], "t": ["a", "b"], "m": ["a", "b"]}])[0]["impl"]
    P, L, M = [tuple(x) for x in reps["P"]], [tuple(x) for x in reps["L"]], [tuple(x) for x in reps["M"]]
    if (len(P), len(L), len(M)) != (10, 27, 19):
        raise MachineryError(f"spec lists {len(P)}/{len(L)}/{len(M)} representations, property quantifies over 10/27/19")

    # ---- 3. table audit against SI definitions
    import pygaps.units.converter_unit as cu
    ref = reference_constants()
    tabs = {"pres": cu._PRESSURE_UNITS, "molar": cu._MOLAR_UNITS, "mass": cu._MASS_UNITS, "vol": cu._VOLUME_UNITS}
    for kind, tab in tabs.items():
        base = {"pres": "Pa", "molar": "mol", "mass": "g", "vol": "cm3"}[kind]
        for u, d in ref[kind].items():
            run.count(("table", kind, u))
            if u not in tab:
                run.violation({"site": "unit table", "kind": kind, "unit": u, "observed": "unit missing"})
                continue
            rel = float(tab[u]) / float(tab[base])
            if not close(rel, d["value"], d["tol"]):
                run.violation({"site": "unit table", "kind": kind, "unit": u, "observed": "table entry differs from SI definition",
                               "observed_over_expected": _fmt(rel / d["value"])},
                              {"table": float(tab[u]), "reference": d["value"], "tol": d["tol"]})
        # spellings of one physical unit (equal SI definition) must carry the very same table entry:
        # converting between them is the identity, whatever rounding the table uses
        names = [u for u in ref[kind] if u in tab]
        for i, u in enumerate(names):
            for v in names[i + 1:]:
                if ref[kind][u]["value"] == ref[kind][v]["value"]:
                    run.count(("alias", kind, u, v))
                    if not close(float(tab[u]), float(tab[v]), 1e-13):
                        run.violation({"site": "unit table", "kind": kind, "unit": u, "other": v, "observed": "two spellings of the same unit carry different table entries"},
                                      {"table": [float(tab[u]), float(tab[v])]})
    tu = cu._TEMPERATURE_UNITS
    run.count(("table", "temp"))
    if not (set(tu) == {"K", "°C"} and abs(tu["°C"] - 273.15) < 1e-12 and abs(tu["K"] + 273.15) < 1e-12):
        run.violation({"site": "unit table", "kind": "temp", "observed": "temperature offsets differ from 273.15"}, {"table": dict(tu)})

    # ---- fixtures
    ads_list = [("N2@77.344", n2(), 77.344), ("custom", custom_adsorbate(), 300.0)]
    # several backend-linked adsorbates at ONE common temperature, visited one after another
    # (state shared between adsorbates, or between liquid and vapour queries, must stay invisible)
    import pygaps
    shared_t = []
    for nm in ("argon", "nitrogen", "methane", "oxygen", "carbon monoxide"):
        try:
            shared_t.append((f"{nm}@100", pygaps.Adsorbate.find(nm), 100.0))
        except Exception:
            pass
    # adsorbates whose SHIPPED property dictionary disagrees with the thermodynamic backend (molar mass off by
    # 14-35 %): the conversion must use what the backend says at the stated temperature
    for nm, t in (("difluoromethane", 220.0), ("chlorotrifluoromethane", 200.0), ("dichlorodifluoromethane", 250.0)):
        try:
            shared_t.append((f"{nm}@{t:g}", pygaps.Adsorbate.find(nm), t))
        except Exception:
            pass
    n_base = len(ads_list)
    ads_list += shared_t
    mat = custom_material()
    # materials whose density / molar mass arrived after construction (properties dictionary edited; isotherm built from a
    # dictionary naming a registered material): the conversion must use the material's current values
    mat_list = [mat, late_material(), rebound_material()]
    if thorough:
        extra = []
        for a in pygaps.ADSORBATE_LIST:
            try:
                if a.backend_name is None:
                    continue
                tt, tc = a.t_triple(), a.t_critical()
            except Exception:
                continue
            for frac in (0.15, 0.5, 0.85):
                extra.append((f"{a.name}@{frac}", a, tt + frac * (tc - tt)))
        ads_list += extra
    matsets_quick = [("mass", "g"), ("mass", "kg"), ("volume", "cm3"), ("molar", "mmol")]

    # ---- 2. records
    recs = []   # (record, fixture index)

    def add(kind, f, t, m, fix=0, mi=0):
        recs.append(({"k": kind, "f": list(f), "t": list(t), "m": list(m)}, (fix, mi)))

    g = ("mass", "g")
    for f in P:
        for t in P:
            for fi in range(2):
                add("P", f, t, g, fi)
    for f in M:
        for t in M:
            add("M", f, t, g, 0)
    mats = M if thorough else matsets_quick
    for f in L:
        for t in L:
            involves_frac = f[0] in ("fraction", "percent") or t[0] in ("fraction", "percent")
            for m in (mats if involves_frac else [g]):
                for fi in range(2):
                    add("L", f, t, m, fi)
    n_valid = len(recs)
    # degenerate argument patterns (missing / empty / unknown), representative units
    degP = [(b, u) for b in ("absolute", "relative", "relative%", "none", "empty", "bogus") for u in ("kPa", "torr", "none", "empty", "bogus")]
    for f in degP:
        for t in degP:
            add("P", f, t, g, 0)
    repu = ("mmol", "cm3(STP)", "g", "kg", "cm3", "L", "none", "empty", "bogus")
    degL = [(b, u) for b in ("mass", "molar", "volume_gas", "volume_liquid", "fraction", "percent", "none", "empty", "bogus") for u in repu]
    # incl. names of the wrong kind: a loading basis where a material basis is expected is an unknown material basis
    degMat = [("mass", "g"), ("volume", "cm3"), ("molar", "mol"), ("none", "none"), ("bogus", "g"), ("mass", "none"), ("mass", "cm3"),
              ("volume_gas", "cm3"), ("volume_liquid", "mL"), ("fraction", "g"), ("percent", "none"), ("molar", "g"), ("volume", "cm3(STP)")]
    for f in degL:
        for t in degL:
            fr = f[0] in ("fraction", "percent") or t[0] in ("fraction", "percent")
            for m in (degMat if fr else degMat[:1]):
                add("L", f, t, m, 0)
    degM = [(b, u) for b in ("mass", "molar", "volume", "none", "empty", "bogus", "volume_gas", "volume_liquid", "fraction") for u in repu]
    for f in degM:
        for t in degM:
            add("M", f, t, g, 0)
    if not thorough:
        # quick: all valid pairs, a seeded half of the degenerate patterns
        head, tail = recs[:n_valid], recs[n_valid:]
        keep = [r for r in tail if r[0]["k"] != "L"]          # pressure and material patterns: all of them
        rest = [r for r in tail if r[0]["k"] == "L"]
        rng.shuffle(rest)
        recs = head + keep + rest[: len(rest) // 2]
    # material sweep: every inter-basis material pair for the materials whose properties arrived late
    for mi in range(1, len(mat_list)):
        reps_m = M if thorough else [("mass", "g"), ("mass", "kg"), ("volume", "cm3"), ("volume", "L"), ("molar", "mol"), ("molar", "mmol")]
        for f in reps_m:
            for t in reps_m:
                if f[0] != t[0]:
                    add("M", f, t, g, 0, mi)
    if len(ads_list) > 2:
        # backend sweep: the pairs that consult the backend, for every backend-linked adsorbate
        # (interleaved over the adsorbates so that consecutive calls hit different adsorbates)
        for fi in list(range(2, len(ads_list))) * (2 if not thorough else 1):
            for f, t in (("absolute", "bar"), ("relative", "none")), (("relative%", "none"), ("absolute", "torr")):
                add("P", f, t, g, fi)
            for f, t in ((("mass", "mg"), ("volume_liquid", "cm3")), (("volume_gas", "L"), ("molar", "mmol")),
                         (("molar", "mol"), ("mass", "g")), (("volume_liquid", "mL"), ("volume_gas", "cm3")),
                         (("fraction", "none"), ("molar", "mmol"))):
                add("L", f, t, ("volume", "cm3"), fi)

    answers = tlc.oracle("UnitsOracle", [r for r, _ in recs], timeout=1200)
    atom_cache = {}
    forms = value_forms(rng)
    nrec = 0
    for (r, (fi, mi)), ans in zip(recs, answers):
        name, ads, temp = ads_list[fi]
        mat = mat_list[mi]
        if (fi, mi) not in atom_cache:
            atom_cache[(fi, mi)] = Atoms(ads, temp, mat)
        atoms = atom_cache[(fi, mi)]
        site = {"P": "c_pressure", "L": "c_loading", "M": "c_material"}[r["k"]]
        if "bogus" in r["f"] and r["f"] == r["t"]:
            # identical unknown atoms: once with the very same string on both sides, once with two different unknown strings
            obs = observe(r["k"], r["f"], r["t"], r["m"], forms, ads, temp, mat, variant=nrec, same=True) \
                + observe(r["k"], r["f"], r["t"], r["m"], forms, ads, temp, mat, variant=nrec, same=False)
        else:
            obs = observe(r["k"], r["f"], r["t"], r["m"], forms, ads, temp, mat, variant=nrec)
        nrec += 1
        nontrivial = not (r["f"] == r["t"])
        run.count((r["k"], tuple(r["f"]), tuple(r["t"]), tuple(r["m"]), fi, mi), nontrivial=nontrivial, n=len(obs))
        judge(run, site, r["k"], r["f"], r["t"], r["m"], ans, obs, atoms)
        if nontrivial and len(run.cov["samples"]) < 4 and rng.random() < 0.001:
            run.sample({"call": site, "from": r["f"], "to": r["t"], "mat": r["m"], "adsorbate": name,
                        "allowed": ans["allowed"], "observed": [(f, o[:2]) for f, o in obs]})
    run.add("traces_validated_against_impl", len(recs))

    # ---- temperature
    tcases = [(a, b) for a in ("K", "°C", "C", "c", None, "", "F") for b in ("K", "°C", "C", "c", None, "", "F")]
    trecs = [{"k": "T", "f": ["x", "bogus" if a == "F" else ("none" if a is None else ("empty" if a == "" else a))],
              "t": ["x", "bogus" if b == "F" else ("none" if b is None else ("empty" if b == "" else b))], "m": ["x", "x"]} for a, b in tcases]
    tans = tlc.oracle("UnitsOracle", trecs)
    import pygaps.units.converter_mode as cm
    for (a, b), ans in zip(tcases, tans):
        for val in (77.344, numpy.array([0.0, 300.0]), -12.5):
            run.count(("T", a, b))
            al = ans["allowed"]
            try:
                out = cm.c_temperature(val, a, b)
            except Exception as e:
                if not (exc_class(e) == "ParameterError" and any(x["kind"] == "PE" for x in al)):
                    run.violation({"site": "c_temperature", "from_unit": a, "to_unit": b, "observed": "exception:" + exc_class(e)}, {"allowed": al})
                continue
            ks = [x["k"] for x in al if x["kind"] == "val"]
            d = numpy.asarray(out, dtype=float) - numpy.asarray(val, dtype=float)
            if not ks or not numpy.allclose(d, ks[0] * 273.15, rtol=0, atol=1e-9):
                run.violation({"site": "c_temperature", "from_unit": a, "to_unit": b, "observed": "wrong offset" if ks else "value"},
                              {"allowed": al, "delta": d.tolist()})

    # ---- 4. triples on the real code (composition == direct), numerically
    ntri = 20000 if thorough else 2500
    name, ads, temp = ads_list[0]
    mat = mat_list[0]
    val = numpy.array([0.37, 12.5])
    done = 0
    allL = [(f, t, c) for f in L for t in L for c in L]
    rng.shuffle(allL)
    spaces = [("P", [(a, b, c) for a in P for b in P for c in P]), ("M", [(a, b, c) for a in M for b in M for c in M][: ntri // 3]), ("L", allL[:ntri])]
    for kind, triples in spaces:
        for a, b, c in triples:
            m = rng.choice(mats) if kind == "L" else g
            try:
                pa, pb, pc, pm = [dec(x) for x in a], [dec(x) for x in b], [dec(x) for x in c], [dec(x) for x in m]
                via = call(kind, pb, pc, pm, call(kind, pa, pb, pm, val, ads, temp, mat), ads, temp, mat)
                direct = call(kind, pa, pc, pm, val, ads, temp, mat)
            except Exception as e:
                run.violation({"site": "triple", "kind": kind, "a": a, "b": b, "c": c, "observed": "exception:" + exc_class(e)}, {"message": str(e)[:200]})
                continue
            run.count(("tri", kind, a, b, c, m), nontrivial=len({a, b, c}) == 3)
            done += 1
            if not numpy.allclose(via, direct, rtol=1e-9, atol=0):
                run.violation({"site": "triple", "kind": kind, "a": a, "b": b, "c": c, "mat": m, "observed": "composition differs from direct conversion"},
                              {"via": via.tolist(), "direct": direct.tolist()})
    run.set(triples_replayed=done, exhaustive=bool(thorough),
            rule="every ordered pair of the 10 pressure / 19 material / 27 loading representations (loading x material representations when fraction/percent is involved: "
                 + ("all 19" if thorough else "4") + ") x 2 adsorbate fixtures x 4 value containers, plus degenerate argument patterns (None, '', unknown string in every position), "
                 "temperature units, table audit, triples; non-trivial = source and target representation differ; distinct = distinct (call, from, to, material, fixture)")
    run.assume("adsorbate property methods are taken as the definition of psat/M/densities (their mutual consistency is C20)")
    run.assume("STP molar volume 22413.969 cm3/mol; table entries accepted within the rounding stated in harness/reference_constants.json")
    return run.finish()
