"""X01 (growth beyond the listed properties) - command-line dispatch.

spec/Cli.tla states the decision table of `pygaps` on the command line (help text = Spec, cli.py = Impl);
TLC compares them on all 23 040 abstract invocations (CliMC) and this driver replays invocations on the
real pygaps.cli.cli.main() with the library entry points replaced by recorders; the observed effect
sequence must be the one the specification gives.
"""
import itertools
import os
import random
import shutil
import sys
import tempfile

from ..common import Run, exc_class, MachineryError, quiet_pygaps
from .. import tlc

PID = "X01"


class FakeIso:
    def __init__(self, log):
        self._log = log

    def __str__(self):
        self._log.append("print_iso")
        return "<iso>"

    def convert(self, **kw):
        self._log.append("convert")

    def plot(self, **kw):
        self._log.append("plot")

    def to_json(self, path):
        self._log.append("to_json")

    def to_csv(self, path):
        self._log.append("to_csv")

    def to_xl(self, path):
        self._log.append("to_xl")

    def to_aif(self, path):
        self._log.append("to_aif")


def run_cli(inv, tmp):
    import importlib.metadata
    import matplotlib.pyplot as plt
    import pygaps.characterisation as pgc
    import pygaps.cli.cli as cli
    import pygaps.modelling as pgm
    import pygaps.parsing as pgp
    log = []
    iso = FakeIso(log)
    path = os.path.join(tmp, ("in." if inv["exists"] else "missing.") + inv["ext"])
    if inv["exists"]:
        open(path, "w").close()
    argv = ["pygaps"]
    if inv["version"]:
        argv.append("--version")
    argv.append(path)
    if inv["ch"] != "none":
        argv += ["-ch", inv["ch"]]
    if inv["md"] != "none":
        argv += ["-md", inv["md"]]
    if inv["cv"]:
        argv += ["-cv", "pressure_mode=relative, loading_unit=mol"]
    if inv["plot"]:
        argv.append("-p")
    if inv["out"] != "none":
        argv += ["-o", os.path.join(tmp, "out." + inv["out"])]
    if inv["verbose"]:
        argv.append("-v")

    def rec(name, ret):
        def f(*a, **k):
            log.append(name)
            return ret
        return f
    patches = [
        (pgp, "isotherm_from_json", rec("from_json", iso)), (pgp, "isotherm_from_csv", rec("from_csv", iso)),
        (pgp, "isotherm_from_xl", rec("from_xl", iso)), (pgp, "isotherm_from_aif", rec("from_aif", iso)),
        (pgc, "area_BET", rec("area_BET", {})), (pgc, "area_langmuir", rec("area_langmuir", {})),
        (pgc, "initial_henry_slope", rec("initial_henry_slope", 1.0)),
        (pgm, "model_iso", rec("model_iso", iso)), (plt, "show", lambda *a, **k: None),
        (importlib.metadata, "version", rec("print_version", "0")),
    ]
    saved = [(m, n, getattr(m, n)) for m, n, _ in patches]
    old_argv, old_out = sys.argv, sys.stdout
    try:
        for m, n, f in patches:
            setattr(m, n, f)
        sys.argv = argv
        sys.stdout = open(os.devnull, "w")
        try:
            cli.main()
        except SystemExit as e:
            log.append("SystemExit")
        except Exception as e:
            log.append(exc_class(e))
    finally:
        sys.stdout.close()
        sys.argv, sys.stdout = old_argv, old_out
        for m, n, f in saved:
            setattr(m, n, f)
    return log, argv


def main(tier, seed):
    quiet_pygaps()
    run = Run(PID, tier, seed, "model_checking")
    rng = random.Random(seed)
    res = tlc.must_pass("CliMC", timeout=600)
    run.set(states=res["distinct"], transitions=res["states_generated"], tlc_invariants=["ImplMeetsSpec", "AtMostOneAction", "ReadBeforeAnythingElse", "WriteOnlyWhatWasProduced"])
    dims = dict(version=[False, True], exists=[True, False], ext=["json", "csv", "xls", "aif", "txt"], ch=["none", "a_bet", "a_lang", "kh"],
                md=["none", "guess", "henry", "langmuir", "dslangmuir", "bet"], cv=[False, True], plot=[False, True],
                out=["none", "json", "csv", "xls", "aif", "txt"], verbose=[False, True])
    invs = [dict(zip(dims, v)) for v in itertools.product(*dims.values())]
    if tier != "thorough":
        invs = rng.sample(invs, 2500)
    answers = tlc.oracle("CliOracle", invs, timeout=900)
    tmp = tempfile.mkdtemp(prefix="cli-")
    try:
        for inv, ans in zip(invs, answers):
            log, argv = run_cli(inv, tmp)
            want = list(ans["spec"])
            run.count(tuple(sorted(inv.items())), nontrivial=not inv["version"])
            if log != want:
                action = "characterize" if inv["ch"] != "none" else "model" if inv["md"] != "none" else "convert" if inv["cv"] else "plot" if inv["plot"] else "print"
                run.violation({"site": "cli.main", "action": action, "in_ext": inv["ext"], "out_ext": inv["out"], "observed": "effects differ from the documented dispatch"},
                              {"argv": argv[1:], "observed": log, "specified": want, "impl_model": list(ans["impl"])})
        run.sample({"invocation": invs[0], "specified_effects": list(answers[0]["spec"])})
    finally:
        shutil.rmtree(tmp, ignore_errors=True)
    run.add("traces_validated_against_impl", len(invs))
    run.set(exhaustive=tier == "thorough",
            rule="abstract command-line invocations (version, path exists, input extension, -ch, -md, -cv, -p, output extension, -v): all 23 040 in thorough, 2 500 seeded in quick; "
                 "non-trivial = not --version; distinct = distinct invocation")
    return run.finish()
