"""C08 - the SQLite store behaves as a keyed collection over any operation history.

1. TLC model-checks spec/StoreMC (Store!Spec run as a transition system): every reachable state of one
   database file (all depths) and of two files (depth-bounded) satisfies the history-level statement of the
   property (dictionary model, referential integrity, step laws, retrieve-then-delete, independence).
2. TLC explores the implementation-shaped model (registries as hidden state) and lists every class of
   divergence from Spec with a shortest witness history.
3. Conformance (pattern A): witness histories, scripted histories and TLC -simulate histories are replayed
   on REAL database files created by db_create; after every public call the outcome, the projection of
   BOTH files (independent sqlite3 connection) and the *_from_db result are recorded; spec/StoreOracle
   (TLC) judges every recorded step against Store!SpecStep from the recorded pre-state.
"""
import json
import os
import random

from ..common import Run, MachineryError, quiet_pygaps
from .. import tlc
from .. import store_common as sc

PID = "C08"
EXPECTED_IMPL_CLASSES = {
    "iso_from:iso_type_leak", "iso_from:coerced_values+iso_type_leak",
    "iso_to:autoinsert_skipped_item_absent_from_file", "type_to:overwrite_of_absent_reports_success",
    "iso_del:retrieved_isotherm_has_another_id", "isotherm_property_type:table_never_created",
    "iso_to:autoinsert_duplicates_item_present_in_file", "iso_from:coerced_values",
}


def parse_printed(out, tag):
    """PrintT(<<tag, ..., ToJson(x)>>) lines -> list of tuples (strings before the JSON, decoded JSON)."""
    res = []
    pre = '<<"%s", ' % tag
    for line in out.splitlines():
        if not line.startswith(pre) or not line.rstrip().endswith(">>"):
            continue
        body = line.rstrip()[len(pre):-2]
        # body is a comma separated list of TLA+ string literals; the last one is JSON text
        parts = json.loads("[" + body + "]")
        res.append((parts[:-1], json.loads(parts[-1])))
    return res


def derived_cfg(name, traits, scratch):
    """spec/<name>.cfg with the probed trait set instead of the default (all traits)."""
    with open(os.path.join(tlc.SPEC, name + ".cfg")) as f:
        text = f.read()
    if "Traits <- MCTraits" not in text:
        raise MachineryError(f"{name}.cfg does not assign Traits")
    text = text.replace("Traits <- MCTraits", "Traits = {" + ", ".join('"%s"' % t for t in traits) + "}")
    path = os.path.join(scratch, name + ".cfg")
    with open(path, "w") as f:
        f.write(text)
    return path


def design_checks(run, thorough, traits, scratch):
    r1 = tlc.must_pass("StoreMC", cfg="StoreMC_spec1t" if thorough else "StoreMC_spec1", timeout=600, workers=8)
    r2 = tlc.must_pass("StoreMC", cfg="StoreMC_spec2", timeout=900, workers=8)
    if r1["distinct"] < 30000 or r2["distinct"] < 10000 or r1["queue"] or r2["queue"]:
        raise MachineryError(f"StoreMC explored too little: {r1['distinct']} / {r2['distinct']} states")
    run.set(states=r1["distinct"] + r2["distinct"], transitions=r1["states_generated"] + r2["states_generated"],
            tlc_runs={"one_file_all_depths": {"states": r1["distinct"], "transitions": r1["states_generated"], "depth": r1["depth"]},
                      "two_files_depth_bounded": {"states": r2["distinct"], "transitions": r2["states_generated"], "depth": r2["depth"]}},
            tlc_invariants=["DictionaryModel", "Integrity", "StepLaws", "RetrieveThenDelete", "Independence", "SameContentSameOutcome"])
    ri = tlc.check("StoreMC", cfg=derived_cfg("StoreMC_implt" if thorough else "StoreMC_impl", traits, scratch), workers=1, timeout=600)
    if not ri["ok"]:
        raise MachineryError("StoreMC ImplSys run failed:\n" + "\n".join(ri["out"].splitlines()[-30:]))
    wit = parse_printed(ri["out"], "WITNESS")
    classes = {w[0][0] for w in wit}
    edges = None
    lines = ri["out"].splitlines()
    for i, line in enumerate(lines):
        if "DIVERGENT-EDGES" in line:
            try:
                edges = int(lines[i + 1].strip().rstrip(","))
            except Exception:
                edges = None
    run.set(impl_model={"states": ri["distinct"], "transitions": ri["states_generated"], "divergent_edges": edges,
                        "divergence_classes": sorted(classes)})
    if not classes <= EXPECTED_IMPL_CLASSES:
        run.note(f"MODEL: Impl diverges from Spec in classes not listed as seen: {sorted(classes - EXPECTED_IMPL_CLASSES)}")
    return [(w[0][0], w[1]) for w in wit]


def scripted():
    """Hand-written histories: the orders the repository script never tries, value classes, a third kind of isotherm."""
    o = sc.op
    H = []
    # the repository's own order, on two files
    H.append(("repo_order", [o("apt_to", "d1", "pa", "t1"), o("apt_to", "d1", "pa", "t1"), o("apt_from", "d1"), o("apt_del", "d1", "pa", by="name"),
                             o("apt_del", "d1", "pa", by="name"), o("ads_to", "d1", "A1", "a1", ai=True), o("ads_to", "d1", "A1", "a1", ai=True),
                             o("ads_from", "d1"), o("ads_to", "d1", "A1", "a0", ow=True, ai=True), o("ads_from", "d1"), o("ads_del", "d1", "A1", by="obj"),
                             o("ads_del", "d1", "A1", by="obj"), o("ads_from", "d2")]))
    # retrieval then delete, for every kind of isotherm
    for k in ("I1", "I2", "I3", "I4"):
        H.append(("retrieve_then_delete_" + k, [o("iso_to", "d1", k, am=True, aa=True), o("iso_from", "d1"), o("iso_del", "d1", k, by="retrieved"),
                                                o("iso_from", "d1"), o("iso_del", "d1", k, by="id"), o("iso_del", "d1", k, by="obj"),
                                                o("iso_to", "d1", k, am=True, aa=True), o("iso_from", "d1")]))
    # several files
    H.append(("second_file", [o("iso_to", "d1", "I1", am=True, aa=True), o("iso_to", "d2", "I1", am=True, aa=True), o("iso_from", "d2"),
                              o("mats_from", "d2"), o("iso_to", "d2", "I2", am=True, aa=True), o("iso_del", "d1", "I1", by="id"),
                              o("mat_del", "d1", "M1", by="name"), o("iso_to", "d1", "I1", am=True, aa=True), o("iso_from", "d1")]))
    H.append(("explicit_items_second_file", [o("mat_to", "d1", "M1", "m1", ai=True), o("ads_to", "d1", "A1", "a0", ai=True), o("iso_to", "d1", "I1"),
                                             o("mat_to", "d2", "M1", "m1", ai=True), o("ads_to", "d2", "A1", "a0", ai=True), o("iso_to", "d2", "I1"),
                                             o("iso_from", "d2", cm="M1"), o("iso_from", "d2", cm="M2"), o("iso_from", "d2", ca="A1"), o("iso_from", "d2", cm="M1", ca="A2")]))
    # isotherms stored in non-default representations (degC incl. 0 degC, torr / kPa, volume / molar material basis ...)
    # and every kind of criterion: falsy values, values matching nothing, combinations, the empty criteria
    both = dict(am=True, aa=True)
    H.append(("representations_and_criteria", [
        o("iso_to", "d1", "I10", **both), o("iso_to", "d1", "I12", **both), o("iso_to", "d1", "I2", **both), o("iso_to", "d1", "I1", **both),
        o("iso_to", "d1", "I11", **both), o("iso_to", "d1", "I3", **both), o("iso_from", "d1"), o("iso_from", "d1"),
        o("iso_from", "d1", ct="T30"), o("iso_from", "d1", ct="T0"), o("iso_from", "d1", ct="T0"), o("iso_from", "d1", cm="M2", ct="T0"),
        o("iso_from", "d1", cm="M1", ct="T0"), o("iso_from", "d1", cm="M1", ct="T0"), o("iso_from", "d1", cy="tm", ct="T0"),
        o("iso_from", "d1", ca="A1", ct="T0", cy="tp"), o("iso_from", "d1", ct="nomatch"), o("iso_from", "d1", cy="nomatch"),
        o("iso_from", "d1", cm="nomatch"), o("iso_from", "d1", ca="nomatch", ct="T0"), o("iso_from", "d1", cy="tp"), o("iso_from", "d1", cy="tm"),
        o("iso_from", "d1", cm="M1", ca="A1", ct="T80.5", cy="tp"), o("iso_from", "d2", ct="T0"),
        o("iso_del", "d1", "I10", by="retrieved"), o("iso_del", "d1", "I12", by="retrieved"), o("iso_del", "d1", "I2", by="id"),
        o("iso_from", "d1", ct="T0"), o("iso_from", "d1")]))
    # the exact string is the key: names that differ only in letter case, names that are aliases of other adsorbates
    H.append(("names_case_and_aliases", [
        o("ads_to", "d1", "A3", "a1", ai=True), o("ads_to", "d2", "A4", "a0"), o("ads_to", "d2", "A3", "a0"), o("ads_from", "d2"),
        o("ads_del", "d2", "A4", by="name"), o("ads_from", "d2"), o("ads_del", "d2", "A4", by="name"), o("ads_to", "d2", "A4", "a1", ow=True, ai=True),
        o("ads_del", "d2", "A3", by="name"), o("ads_from", "d2"), o("ads_from", "d1"),
        o("ads_to", "d1", "A5", "a0"), o("ads_from", "d1"), o("ads_del", "d1", "A5", by="name"), o("ads_from", "d1"), o("ads_del", "d1", "A5", by="name"),
        o("ads_to", "d1", "A5", "a1", ai=True), o("ads_to", "d1", "A5", "a0", ow=True), o("ads_del", "d1", "A5", by="obj"), o("ads_from", "d1"),
        o("ads_to", "d1", "A4", "a0"), o("ads_del", "d1", "A3", by="obj"), o("ads_from", "d1"), o("ads_del", "d1", "A4", by="name"),
        o("mat_to", "d1", "M1", "m1", ai=True), o("mat_to", "d1", "M2", "m0"), o("mats_from", "d1"), o("mat_to", "d1", "M2", "m1", ow=True),
        o("mat_del", "d1", "M2", by="name"), o("mats_from", "d1"), o("mat_del", "d1", "M2", by="name"), o("mat_del", "d1", "M2", by="obj"),
        o("iso_to", "d1", "I2", aa=True), o("iso_to", "d1", "I1", aa=True), o("iso_from", "d1", cm="M2"), o("iso_from", "d1", cm="M1"),
        o("iso_to", "d1", "I2", am=True, aa=True), o("mats_from", "d1"), o("iso_from", "d1", cm="M2"), o("mat_del", "d1", "M1", by="name"),
        o("apt_to", "d1", "pb", "t2"), o("apt_from", "d1"), o("apt_del", "d1", "pa", by="name"), o("apt_to", "d1", "pa", "t1", ow=True),
        o("apt_del", "d1", "pb", by="name"), o("apt_del", "d1", "pb", by="name"), o("apt_from", "d1"),
        o("mpt_to", "d1", "pn", "t1"), o("mpt_to", "d1", "pn", "t2", ow=True), o("mpt_del", "d1", "pm", by="name"), o("mpt_from", "d1"), o("mpt_del", "d1", "pn", by="name"),
        o("ity_to", "d1", "tq", "t1"), o("ity_from", "d1"), o("ity_del", "d1", "tq", by="name"), o("ity_del", "d1", "tq", by="name"), o("ity_from", "d1"),
        o("ipt_to", "d1", "pj", "t1"), o("ipt_to", "d1", "pi", "t2"), o("ipt_del", "d1", "pj", by="name"), o("ipt_from", "d1")]))
    # a later session on the same file
    H.append(("new_session", [o("iso_to", "d1", "I1", am=True, aa=True), o("session"), o("iso_from", "d1"), o("iso_to", "d1", "I3", am=True, aa=True),
                              o("iso_to", "d1", "I3"), o("iso_to", "d1", "I2", am=True, aa=True), o("iso_to", "d1", "I2", am=True), o("iso_from", "d1")]))
    H.append(("new_session_retrieve_then_delete", [o("iso_to", "d1", "I1", am=True, aa=True), o("iso_to", "d1", "I4", am=True, aa=True), o("session"),
                                                   o("iso_from", "d1"), o("iso_del", "d1", "I4", by="retrieved"), o("iso_del", "d1", "I1", by="retrieved"),
                                                   o("iso_from", "d1")]))
    # references
    H.append(("references", [o("iso_to", "d1", "I1"), o("iso_to", "d1", "I1", am=True), o("iso_to", "d1", "I1", aa=True), o("mats_from", "d1"), o("ads_from", "d1"),
                             o("iso_to", "d1", "I1", am=True, aa=True), o("mat_del", "d1", "M1", by="obj"), o("ads_del", "d1", "A1", by="name"),
                             o("mpt_del", "d1", "pm", by="name"), o("ity_del", "d1", "tp", by="name"), o("iso_del", "d1", "I1", by="obj"),
                             o("ity_del", "d1", "tp", by="name"), o("iso_to", "d1", "I1", am=True, aa=True), o("ity_to", "d1", "tp", "t1"),
                             o("iso_to", "d1", "I1", am=True, aa=True), o("ity_from", "d1"), o("mat_del", "d1", "M1", by="obj"), o("mpt_del", "d1", "pm", by="name")]))
    # property types: without auto-insert, overwrite, overwrite of an absent key
    H.append(("property_types", [o("mat_to", "d1", "M1", "m1"), o("mpt_to", "d1", "pm", "t1"), o("mat_to", "d1", "M1", "m1"), o("mpt_to", "d1", "pm", "t2", ow=True),
                                 o("mpt_from", "d1"), o("mpt_to", "d2", "pm", "t2", ow=True), o("mpt_from", "d2"), o("mat_to", "d1", "M1", "m0", ow=True),
                                 o("mats_from", "d1"), o("mpt_del", "d1", "pm", by="name"), o("mat_to", "d1", "M2", "m1", ow=True, ai=True), o("ads_to", "d1", "A2", "a1"),
                                 o("ads_to", "d1", "A2", "a1", ai=True), o("apt_from", "d1"), o("apt_del", "d1", "pa", by="name"), o("ads_to", "d1", "A2", "a0", ow=True),
                                 o("apt_del", "d1", "pa", by="name"), o("ads_from", "d1"), o("ity_to", "d1", "tm", "t1", ow=True), o("ity_from", "d1"),
                                 o("ipt_to", "d1", "pi", "t1"), o("ipt_from", "d1"), o("ipt_del", "d1", "pi", by="name")]))
    # value classes outside / at the edge of what a REAL NOT NULL column stores
    H.append(("value_classes", [o("iso_to", "d1", "I5", am=True, aa=True), o("iso_to", "d1", "I6", am=True, aa=True), o("iso_to", "d1", "I7", am=True, aa=True),
                                o("iso_from", "d1"), o("mats_from", "d1"), o("ads_from", "d1"), o("iso_to", "d1", "I2", am=True, aa=True), o("iso_from", "d1"),
                                o("iso_to", "d1", "I3", am=True, aa=True), o("iso_to", "d1", "I4", am=True, aa=True), o("iso_from", "d1", ca="A2")]))
    return H


def lift(hist, rng):
    """Rename keys of a generated history into the full universe: isotherms into the other kinds / value classes /
    representations; adsorbate-only and type-only operations onto the names that differ only in letter case or are
    aliases of other adsorbates (A3 / A4 / A5, pb, pn, tq)."""
    m = {"I1": rng.choice(["I1", "I7", "I10", "I10"]), "I2": rng.choice(["I2", "I5", "I6", "I11", "I12"]), "I3": rng.choice(["I3", "I4", "I12"])}
    ads = rng.choice([{"A1": "A3", "A2": "A4"}, {"A1": "A4", "A2": "A3"}, {"A2": "A5"}, {"A1": "A5", "A2": "A3"}])
    out = []
    for o in hist:
        o = dict(o)
        if o["op"] in ("iso_to", "iso_del"):
            o["k"] = m.get(o["k"], o["k"])
        elif o["op"] in ("ads_to", "ads_del"):
            o["k"] = ads.get(o["k"], o["k"])
        elif o["op"] in ("apt_to", "apt_del") and rng.random() < 0.5:
            o["k"] = "pb"
        elif o["op"] in ("mpt_to", "mpt_del") and rng.random() < 0.5:
            o["k"] = "pn"
        elif o["op"] in ("ity_to", "ity_del") and o["k"] == "tm" and rng.random() < 0.5:
            o["k"] = "tq"
        out.append(o)
    return out


def replay_history(sess, hist):
    recs = []
    pre = {d: sc.spec_file(f) for d, f in sess.project_all().items()}
    for o in hist:
        reg = sess.registry()
        r = sc.execute(sess, o)
        post = {d: sc.spec_file(f) for d, f in sess.project_all().items()}
        recs.append(({"pre": pre, "reg": reg, "op": o, "out": r["out"], "post": post,
                      "ret": r["ret"] if r["ret"] is not None else {}, "regpost": sess.registry()}, r))
        pre = post
    return recs


def field_diff(a, b):
    out = []
    for fld in ("ads", "mats", "apt", "mpt", "ity", "ipt", "isos"):
        for k in sorted(set(a.get(fld, {})) | set(b.get(fld, {}))):
            x, y = a.get(fld, {}).get(k), b.get(fld, {}).get(k)
            if x != y:
                out.append(f"{fld}:{_cls(x)}>{_cls(y)}")
    if a.get("rest") != b.get("rest"):
        out.append("rest")
    return ",".join(sorted(set(out))) or "nothing"


def _tok(x):
    return "damaged" if isinstance(x, str) and x.startswith("x:") and "=" not in x else x


def _cls(x):
    if x is None or x == sc.ABSENT:
        return "absent"
    if isinstance(x, str) and x.startswith("x:"):
        return "damaged"
    if isinstance(x, str) and x.startswith("n") and x[1:].isdigit():
        return "count"
    return "stored"


def judge(run, name, hist_ops, rec, res, ans, step):
    o = rec["op"]
    site = sc.SITE[o["op"]]
    if ans["ok"]:
        if not ans["impl_agrees"]:
            run.add("model_drift")
            if len(run.notes) < 20:
                run.note(f"MODEL-DRIFT {site}: the step satisfies Spec but Impl predicted {ans['impl_out']} ({name} step {step})")
        return
    clause = ans["clause"]
    sig = {"site": site, "clause": clause, "impl_class": ans["impl_class"]}
    if clause == "outcome":
        sig["observed"] = rec["out"] + (":" + res["exc"] if rec["out"] == "error" else "")
        if o["op"] == "iso_del":
            sig["argument"] = o["by"]
            if o["by"] == "retrieved":
                sig["id_differs_by"] = res["extra"].get("id_diff", "")
    elif clause == "effect":
        sig["observed"] = rec["out"] + " changing " + field_diff(rec["pre"][o["d"]], rec["post"][o["d"]])
        exp = ans["spec_post"][0] if ans["spec_post"] else rec["pre"][o["d"]]
        sig["expected"] = "changing " + field_diff(rec["pre"][o["d"]], exp)
    elif clause == "independence":
        other = [d for d in rec["pre"] if d != o["d"]]
        sig["observed"] = "other file changed: " + ";".join(field_diff(rec["pre"][d], rec["post"][d]) for d in other)
    elif clause == "retrieval":
        exp = ans["spec_ret"]
        wrong = sorted({f"{_tok(exp.get(k))}>{_tok(v)}" for k, v in rec["ret"].items() if exp.get(k) != v}
                       | {f"{_tok(v)}>missing" for k, v in exp.items() if k not in rec["ret"]})
        iret = ans["impl_ret"] if isinstance(ans["impl_ret"], dict) else {}
        predicted = {f"{_tok(exp.get(k))}>{_tok(v)}" for k, v in iret.items() if exp.get(k) != v}
        for w in wrong:
            s = {"site": site, "clause": clause, "observed": w, "impl_class": "predicted by Impl" if w in predicted else "not predicted by Impl"}
            run.violation(s, {"history": name, "step": step, "ops": hist_ops[:step + 1], "record": rec, "answer": ans, "message": res["msg"],
                              "diffs": res["extra"].get("diffs")})
        return
    run.violation(sig, {"history": name, "step": step, "ops": hist_ops[:step + 1], "record": rec, "answer": ans, "message": res["msg"], "exception": res["exc"],
                        "allowed_outcomes": sorted(ans["allowed_out"])})


def bulk_history(n):
    """More isotherms than two grouped(...,100) chunks of isotherms_from_db; 2 points each, built once per session."""
    keys = []
    for i in range(1, n + 1):
        k = "B%03d" % i
        sc.ISOS[k] = ("point", "M1" if i % 2 else "M2", "m1" if i % 2 else "m0", "A1" if i % 3 else "A2", "a0", "tp", "plain")
        sc.ISO_META[k] = {"vkey": k, "x_float": i / 8.0}
        sc.LARGE_POINTS[k] = 2
        keys.append(k)
    return keys


def run_histories(run, sess, histories, scratch, samples, traits):
    ufile = os.path.join(scratch, "universe-%d.json" % len(sc.ISOS))
    with open(ufile, "w") as f:
        json.dump(sc.universe_json(traits=traits), f)
    all_recs = []       # (history name, ops, step, rec, res)
    for name, h in histories:
        sess.fresh()
        for step, (rec, res) in enumerate(replay_history(sess, h)):
            all_recs.append((name, h, step, rec, res))
    # self-check of the binding: corrupted copies of real records must be rejected by the oracle
    good = next((r[3] for r in all_recs if r[3]["op"]["op"] == "mat_to" and r[3]["out"] == "ok"), None)
    if good is not None:
        d, k = good["op"]["d"], good["op"]["k"]
        other = [x for x in good["pre"] if x != d][0]
        bad1 = json.loads(json.dumps(good))
        bad1["post"][d]["mats"][k] = sc.ABSENT                       # reported success, nothing stored
        bad2 = json.loads(json.dumps(good))
        bad2["post"][other]["rest"] = "r:tampered"                  # another file changed
        bad3 = json.loads(json.dumps(good))
        bad3["out"] = "refused"                                      # refusal of an acceptable upload
        verdicts = [a["clause"] for a in tlc.oracle("StoreOracle", [bad1, bad2, bad3], env={"U_IN": ufile}, timeout=300)]
        if verdicts != ["effect", "independence", "outcome"]:
            raise MachineryError(f"StoreOracle does not reject corrupted records as expected: {verdicts}")
    answers = tlc.oracle("StoreOracle", [r[3] for r in all_recs], env={"U_IN": ufile}, timeout=1500, chunk=4000)
    nsample = 0
    for (name, h, step, rec, res), ans in zip(all_recs, answers):
        o = rec["op"]
        nontrivial = not (o["op"].endswith("_from") and all(v == sc.ABSENT or k == "#rest" for k, v in rec["ret"].items()))
        run.count((json.dumps(o, sort_keys=True), json.dumps(rec["pre"][o["d"]], sort_keys=True), json.dumps(rec["reg"], sort_keys=True)),
                  nontrivial=nontrivial)
        run.add("steps_" + rec["out"])
        if ans["integrity_pre"] and not ans["integrity_post"]:
            run.violation({"site": sc.SITE[o["op"]], "clause": "referential_integrity", "observed": "unknown reference stored",
                           "impl_class": ans["impl_class"]}, {"history": name, "step": step, "ops": h[:step + 1], "record": rec})
        judge(run, name, h, rec, res, ans, step)
        if nsample < samples and name.startswith("sim") and step == len(h) - 1:
            nsample += 1
            run.sample({"history": name, "ops": [[x["op"], x["d"], x["k"], x["v"]] for x in h],
                        "outcomes": [r[3]["out"] for r in all_recs if r[0] == name],
                        "final_projection": rec["post"]})
    return len(all_recs)


def main(tier, seed):
    quiet_pygaps()
    run = Run(PID, tier, seed, "model_checking")
    rng = random.Random(seed)
    thorough = tier == "thorough"

    scratch = tlc.scratch("c08-")
    try:
        sess = sc.Session(sc.db_scratch(scratch, "db"))
        try:
            traits = sc.probe_traits(sess)
            run.set(impl_traits_probed=traits)
            witnesses = design_checks(run, thorough, traits, scratch)
            histories = [("witness:" + cls, h) for cls, h in witnesses] + scripted()
            nsim = 2000 if thorough else 120
            if not sess.dir.startswith("/dev/shm"):
                # database files on disk: every commit fsyncs (~10 ms); keep the replay inside the time budget
                nsim = 900 if thorough else 80
                run.note("database files on disk (no /dev/shm): number of simulated histories reduced to %d" % nsim)
            sim = tlc.simulate("StoreMC", derived_cfg("StoreMC_sim", traits, scratch)[:-4], nsim, 40, seed + 1, timeout=600)
            gen = [h for _, h in parse_printed(sim["out"], "HIST")]
            seen, uniq = set(), []
            for h in gen:
                key = json.dumps(h, sort_keys=True)
                if key not in seen:
                    seen.add(key)
                    uniq.append(h)
            if len(uniq) < nsim * 0.9:
                raise MachineryError(f"TLC -simulate produced only {len(uniq)} distinct histories (wanted {nsim})")
            for i, h in enumerate(uniq[:nsim]):
                histories.append((f"sim{seed + 1}:{i}", lift(h, rng) if i % 3 == 2 else h))
            nrec = run_histories(run, sess, histories, scratch, samples=3, traits=traits)
        finally:
            sess.close()
        nbulk = 0
        if True:      # both tiers: retrieval of more than 200 isotherms, without criteria and with criteria matching > 100
            bulk = bulk_history(230)
            try:
                sess = sc.Session(sc.db_scratch(scratch, "dbbulk"))
                try:
                    o = sc.op
                    hb = [o("iso_to", "d1", k, am=True, aa=True) for k in bulk]
                    hb += [o("iso_from", "d1"), o("iso_from", "d1", cm="M1"), o("iso_from", "d1", cm="M2", ca="A2"), o("iso_from", "d2")]
                    hb += [o("iso_del", "d1", bulk[i], by="id") for i in (0, 99, 100, 229)]
                    hb += [o("iso_from", "d1"), o("iso_to", "d1", bulk[100], am=True, aa=True), o("iso_from", "d1", ca="A1")]
                    nbulk = run_histories(run, sess, [("bulk230", hb)], scratch, samples=0, traits=traits)
                    histories.append(("bulk230", hb))
                finally:
                    sess.close()
            finally:
                for k in bulk:
                    sc.ISOS.pop(k, None)
                    sc.ISO_META.pop(k, None)
                    sc.LARGE_POINTS.pop(k, None)
        run.add("traces_validated_against_impl", len(histories))
        run.set(records_validated=nrec + nbulk,
                histories={"witness": len(witnesses), "scripted": len(scripted()), "simulated": nsim, "bulk": 1},
                exhaustive=False,
                rule="histories = shortest witness histories of every Impl-vs-Spec divergence class (TLC BFS) + scripted orders + TLC -simulate "
                     "random histories (16 operations over 2 files, 2 adsorbates, 2 materials, 3-7 isotherms, 6 type keys; every 3rd history renamed "
                     "into the full universe incl. BaseIsotherm / unstorable value classes); every step is judged by StoreOracle against Store!SpecStep "
                     "from the recorded pre-state; distinct = distinct (operation, projection of target file, registries); non-trivial = not a retrieval "
                     "that returns nothing tracked")
    finally:
        import shutil
        shutil.rmtree(scratch, ignore_errors=True)
    run.assume("an isotherm's content is compared with its material reduced to the name (material properties are a separate item of the dictionary)")
    run.assume("metadata values None / list are outside 'storable properties': any clean refusal is accepted for them")
    run.assume("a fresh session = MATERIAL_LIST / ADSORBATE_LIST as after import; files are copies of one db_create output")
    return run.finish()
