"""C05 - isotherm identity is determined by content, and only by content.

1. TLC model-checks spec/IdentityMC: one live isotherm edited / rebuilt by another route / read,
   over every history of up to 1 (quick) or 2 (thorough) edits, for 5 of the 10 base contents (quick: depth 1 including the 8-row two-branch content with extra columns; thorough: depth 2).
2. spec/IdentityOracle (TLC) enumerates the scenario table of spec/Identity.tla: base contents x
   minimal mutations x construction routes, each with its full content record.  The driver
   builds every selected scenario on the real classes FROM that record (harness/c05_build.py),
   records iso_id, iso_id after a seeded sequence of read-only calls, and the ids of the same
   scenarios built in other interpreter processes with another PYTHONHASHSEED.
3. TLC judges the recorded identifiers: for ALL pairs of objects of one base,
   id equal <=> content equal (Canon: data to 8 decimals), read and process stability, and
   returns the offending pairs grouped into classes.
4. Model isotherms FITTED to integer- vs float-typed data (content known only after the fit):
   projected model dictionaries are compared by TLC against id equality.
"""
import json
import os
import random
import shutil
import subprocess
import sys

from ..common import Run, MachineryError, quiet_pygaps, VERIF
from .. import tlc
from .. import c05_build as B

PID = "C05"
EDIT_CLAUSES = ["identifier before the edit = identifier of a fresh isotherm with the base content",
                "identifier after an in-place edit = identifier of a fresh isotherm with the edited content",
                "identifier changes iff the content changes",
                "== with a fresh isotherm of the edited content",
                "== with a fresh isotherm of the old content iff the content did not change",
                "undoing the edit in place restores the identifier"]
HIDDEN_NAMES = {"index": "row labels", "num": "integer vs float number type", "branch": "dtype of the branch column"}


def select(table, rng, thorough):
    if thorough:
        return list(table)
    out = []
    for e in table:
        core = e["default"] or e["mut"]["kind"] == "none" or _is_r0(e, table) or _is_r0_sub(e, table)
        if core or rng.random() < 0.06:
            out.append(e)
    return out


_R0 = {}


def _is_r0_sub(e, table):
    r0 = _R0.get(e["base"])
    return r0 is not None and e["route"] == {**r0, "sub": True}


def _is_r0(e, table):
    if not _R0:
        for x in table:
            if x["default"]:
                _R0[x["base"]] = x["route"]
    r0 = _R0[e["base"]]
    r = e["route"]
    # the default route of the MUTATED content may differ only when the base one is not applicable
    return r == r0


def scen(e):
    return {"base": e["base"], "mut": e["mut"], "route": e["route"]}


def other_process(entries, hashseed, workdir, tag):
    fin = os.path.join(workdir, f"job{tag}.json")
    fout = os.path.join(workdir, f"ids{tag}.json")
    with open(fin, "w") as f:
        json.dump({"seed": 0, "entries": entries, "defaults": dict(B.DEFAULT_LABELS)}, f)
    env = dict(os.environ)
    env["PYTHONHASHSEED"] = str(hashseed)
    env["PYTHONPATH"] = VERIF + os.pathsep + env.get("PYTHONPATH", "")
    p = subprocess.run([sys.executable, "-m", "harness.c05_build", fin, fout], cwd=VERIF, env=env, capture_output=True, text=True, timeout=900)
    if p.returncode != 0 or not os.path.exists(fout):
        raise MachineryError(f"C05 worker process failed: {p.stderr[-800:]}")
    with open(fout) as f:
        res = json.load(f)
    if res["hashseed"] != str(hashseed) or len(res["ids"]) != len(entries):
        raise MachineryError("C05 worker did not run with the requested PYTHONHASHSEED")
    return res["ids"]


def fit_part(run, rng, thorough):
    """ModelIsotherm fitted to the same numbers handed over as ints or floats, lists, arrays, DataFrame."""
    import numpy
    import pandas
    from pygaps.core.modelisotherm import ModelIsotherm
    U = dict(pressure_mode='absolute', pressure_unit='bar', material_basis='mass', material_unit='g',
             loading_basis='molar', loading_unit='mmol', temperature_unit='K', material='mat1', adsorbate='nitrogen', temperature=77.355)
    p_int = [1, 2, 3, 4, 6, 8]
    groups = []
    for model, lo in (("Henry", [2, 4, 6, 8, 12, 16]), ("Langmuir", [1.0, 1.5, 1.8, 2.0, 2.25, 2.4])) + ((("Toth", [1.0, 1.5, 1.8, 2.0, 2.25, 2.4]),) if thorough else ()):
        forms = {
            "list float": lambda: dict(pressure=[float(x) for x in p_int], loading=[float(x) for x in lo]),
            "list int pressure": lambda: dict(pressure=list(p_int), loading=list(lo)),
            "ndarray float64": lambda: dict(pressure=numpy.array(p_int, dtype="float64"), loading=numpy.array(lo, dtype="float64")),
            "ndarray int64 pressure": lambda: dict(pressure=numpy.array(p_int, dtype="int64"), loading=numpy.array(lo)),
            "DataFrame int64 pressure": lambda: dict(isotherm_data=pandas.DataFrame({"p": p_int, "l": lo}), pressure_key="p", loading_key="l"),
            "DataFrame float64": lambda: dict(isotherm_data=pandas.DataFrame({"p": [float(x) for x in p_int], "l": [float(x) for x in lo]}), pressure_key="p", loading_key="l"),
        }
        obs = []
        for form, mk in forms.items():
            try:
                iso = ModelIsotherm(model=model, **mk(), **U)
            except Exception as e:
                run.note(f"fit {model} / {form}: not constructed ({type(e).__name__})")
                continue
            mdl = iso.model            # projection through attributes, independent of to_dict / hashgen
            proj = {"name": str(mdl.name), "rmse": repr(float(mdl.rmse)),
                    "params": {k: repr(float(v)) for k, v in mdl.params.items()},
                    "prange": [repr(float(v)) for v in mdl.pressure_range], "lrange": [repr(float(v)) for v in mdl.loading_range],
                    "branch": iso.branch}
            ok, ident = B.safe_id(iso)
            obs.append({"form": form, "ok": ok, "id": ident, "model": proj})
            run.count(("fit", model, form))
        groups.append({"k": "fit", "group": model, "obs": obs})
    answers = tlc.oracle("IdentityOracle", groups, timeout=300)
    for g, a in zip(groups, answers):
        for x in a["no_identifier"]:
            run.violation({"site": "iso_id", "cls": "model", "kind": "no identifier", "route": "fitted to " + x["form"], "observed": x["error"]},
                          {"model": g["group"], "obs": x})
        for x in a["bad"]:
            run.violation({"site": "iso_id", "cls": "model", "kind": x["kind"], "route": "fitted: " + x["a"] + " vs " + x["b"]}, {"model": g["group"], "pair": x})
    run.add("traces_validated_against_impl", sum(len(g["obs"]) for g in groups))
    if groups and groups[0]["obs"]:
        run.sample({"fitted": groups[0]["group"], "observation": groups[0]["obs"][0], "oracle": answers[0]})


def edit_part(run, rng, thorough, table):
    """Edit-after-read histories on live objects (Mutate / Read of IdentityMC on the real code)."""
    by_base = {}
    for e in table:
        by_base.setdefault(e["base"], []).append(e)
    recs, meta = [], []
    skipped = 0
    readers = ["iso_id", "eq", "repr", "in_list"]
    for base, entries in sorted(by_base.items()):
        r0 = next(e for e in entries if e["default"])
        base_routes = [e for e in entries if e["mut"]["kind"] == "none"]
        fresh_base = B.materialise(r0)
        muts = {}
        for e in entries:
            k = json.dumps(e["mut"], sort_keys=True)
            if e["mut"]["kind"] in ("none", "rows swapped"):      # order-only edits are not judged (see Judge)
                continue
            if k not in muts or e["route"] == r0["route"]:
                muts[k] = e
        for k, me in sorted(muts.items()):
            try:
                fresh_mut = B.materialise(me)
            except Exception as ex:
                raise MachineryError(f"cannot build the fresh object for {base} {me['mut']}: {ex}")
            nways = B.EDIT_WAYS.get(me["mut"]["kind"], 1)
            if thorough:
                some = base_routes if len(base_routes) <= 14 else [r0] + rng.sample(base_routes, 13)
                plans = [(be, w, rd) for be in some for w in range(nways) for rd in rng.sample(readers, 1)]
            else:
                plans = [(r0, w, readers[(w + rng.randrange(4)) % 4]) for w in range(nways)]
                plans += [(rng.choice(base_routes), rng.randrange(nways), rng.choice(readers))]
            for be, way, reader in plans:
                if be["route"]["via"] == "copy":
                    continue
                try:
                    o = B.edit_history(be, me, way, reader, fresh_base, fresh_mut)
                except B.RouteNotRealisable:
                    continue
                except Exception as ex:
                    run.violation({"site": "iso_id", "kind": "edit after read", "cls": r0["content"]["cls"], "edit": me["mut"]["kind"],
                                   "observed": "exception:" + type(ex).__name__}, {"base": base, "mut": me["mut"], "route": be["route"], "way": way, "message": str(ex)[:300]})
                    continue
                if o.get("skip"):
                    skipped += 1
                    continue
                recs.append({"k": "edit", "s": {"base": base, "mut": me["mut"], "route": be["route"]}, "way": way, "reader": reader,
                             "fresh": fresh_mut.iso_id, "fresh_base": fresh_base.iso_id, **o})
                meta.append((r0["content"]["cls"], me["mut"]["kind"]))
                run.count(("edit", base, k, json.dumps(be["route"], sort_keys=True), way, reader))
    answers = tlc.oracle("IdentityOracle", recs, timeout=900, chunk=20000)
    for (cls, kind), r, a in zip(meta, recs, answers):
        if not a["valid"]:
            raise MachineryError("edit record refers to a mutation the spec does not list")
        if a["failed"]:
            # one signature per (class, group of edit, first failing clause in the order of EDIT_CLAUSES)
            primary = next((c for c in EDIT_CLAUSES if c in a["failed"]), a["failed"][0])
            group = ("data_raw" if kind in ("datum", "text cell", "branch mark", "row removed", "column added", "zero written as -0.0")
                     else "model" if kind.startswith("model") else "metadata" if kind.startswith("meta") else "labels/material/adsorbate/temperature")
            run.violation({"site": "iso_id", "kind": "edit after read", "cls": cls, "edited": group, "clause": primary},
                          {"edit": kind, "failed_clauses": a["failed"], "record": r, "content_changes": a["effective"]})
    run.add("traces_validated_against_impl", len(recs))
    run.set(edit_histories=len(recs), edit_histories_not_realisable=skipped)
    if recs:
        i = rng.randrange(len(recs))
        run.sample({"edit_history": recs[i], "oracle": answers[i]})


def main(tier, seed):
    quiet_pygaps()
    run = Run(PID, tier, seed, "model_checking")
    rng = random.Random(seed)
    thorough = tier == "thorough"

    import time as _t
    _ph = {}
    _t0 = _t.time()
    res = tlc.must_pass("IdentityMC", cfg="IdentityMC" if thorough else "IdentityMCquick", timeout=1200, workers=8)
    if res["distinct"] < 2000:
        raise MachineryError("IdentityMC state space collapsed")
    run.set(states=res["distinct"], transitions=res["states_generated"], tlc_depth=res["depth"],
            tlc_invariants=["InvWellFormed", "InvEffective", "InvImplSensitive", "InvReadStable", "InvPathIndependent", "InvUndo"])
    for line in res["out"].splitlines():
        if "DESIGN-DIVERGENCE" in line:
            run.set(design_divergence="listed in the TLC output of IdentityMC (hidden components num/index/branch by which routes differ)")

    _ph['mc'] = round(_t.time() - _t0, 1); _t0 = _t.time()
    scen_answer = tlc.oracle("IdentityOracle", [{"k": "scenarios"}], timeout=300)[0]
    table = scen_answer["table"]
    B.DEFAULT_LABELS.clear()
    B.DEFAULT_LABELS.update(scen_answer["defaults"])
    if len(table) < 3000:
        raise MachineryError(f"scenario table has only {len(table)} rows")
    chosen = select(table, rng, thorough)
    run.set(scenario_table=len(table), scenarios_materialised=len(chosen))

    workdir = tlc.scratch("c05-")
    try:
        obs, kept, live = [], [], []
        # pass 1: build every object and take its identifier (no read has touched any shared state yet)
        for e in chosen:
            iso, o = B.build_and_id(e)
            if o.get("skip"):
                run.add("routes_not_realisable")
                run.note(f"route not realisable: {e['base']} {e['route']['lit']}/{e['route']['via']}: {o['skip']}")
                continue
            kept.append(e)
            live.append((iso, o))
        _ph['table+build'] = round(_t.time() - _t0, 1); _t0 = _t.time()
        # pass 2: read-only calls on the live objects (fills interpolator caches, creates backend states), identifier again
        for e, (iso, o) in zip(kept, live):
            B.do_reads(iso, e, o, rng, 3 if not thorough else 4, everything=(e["mut"]["kind"] == "none" and _is_r0(e, table)))
            obs.append({"s": scen(e), "ok": o["ok"], "id": o["id"], "after": o["after"], "reads": o["reads"], "others": [],
                        "clones": o.get("clones", []), "error": o["error"]})
            run.count((e["base"], json.dumps(e["mut"], sort_keys=True), json.dumps(e["route"], sort_keys=True)),
                      nontrivial=not e["default"])
        del live
        _ph['reads'] = round(_t.time() - _t0, 1); _t0 = _t.time()
        # other interpreter processes, other hash seeds
        hashseeds = [1 + seed, 4242 + seed] if thorough else [17 + seed]
        for n, hs in enumerate(hashseeds):
            ids = other_process(kept, hs, workdir, n)
            for o, i in zip(obs, ids):
                if o["ok"] and not i.startswith("!"):
                    o["others"].append(i)
                elif o["ok"] != (not i.startswith("!")):
                    o["others"].append(i)
            run.count(("process", hs), n=len(ids))
        # hash-seed probe: string-hash order (sets, dict views) differs between processes with some probability only, so the
        # unmutated default-route object of every base is also rebuilt under several more hash seeds (in parallel)
        probe_idx = [i for i, e in enumerate(kept) if e["mut"]["kind"] == "none" and _is_r0(e, table)]
        probe_seeds = [101 + 7 * k + seed for k in range(6 if thorough else 5)]
        if probe_idx:
            from concurrent.futures import ThreadPoolExecutor
            sub = [kept[i] for i in probe_idx]
            with ThreadPoolExecutor(max_workers=len(probe_seeds)) as ex:
                results = list(ex.map(lambda a: other_process(sub, a[1], workdir, f"p{a[0]}"), enumerate(probe_seeds)))
            for hs, ids in zip(probe_seeds, results):
                for i, ident in zip(probe_idx, ids):
                    o = obs[i]
                    if o["ok"] and not ident.startswith("!"):
                        o["others"].append(ident)
                    elif o["ok"] != (not ident.startswith("!")):
                        o["others"].append(ident)
                run.count(("process-probe", hs), n=len(ids))
        run.set(other_processes=len(hashseeds), hash_seed_probe_processes=len(probe_seeds), hash_seed_probe_objects=len(probe_idx),
                pythonhashseeds=[os.environ.get("PYTHONHASHSEED")] + [str(h) for h in hashseeds] + [str(h) for h in probe_seeds])
    finally:
        shutil.rmtree(workdir, ignore_errors=True)

    _ph['other_processes'] = round(_t.time() - _t0, 1); _t0 = _t.time()
    # which descriptive transcription of hashgen applies to the tree under test (labels MODEL-DRIFT / impl_predicts only)
    import pygaps.utilities.hashgen as hg
    variant = "pandas-hash" if hasattr(hg, "hash_pandas_object") else "value-hash"
    run.set(hashgen_transcription=variant)
    ans = tlc.oracle("IdentityOracle", [{"k": "judge", "impl": variant, "obs": [{k: v for k, v in o.items() if k != "error"} for o in obs]}], timeout=1500, heap="8g")[0]
    if ans["objects"] != len(obs):
        raise MachineryError("judge lost observations")
    run.add("traces_validated_against_impl", len(obs))
    run.set(pairs_judged=ans["pairs"], offending_pairs=ans["bad_pairs"], content_classes=ans["content_classes"],
            reads_checked=ans["reads_checked"], process_checked=ans["process_checked"])
    run.cov["evaluations"] += ans["pairs"]
    cls_of = {e["base"]: e["content"]["cls"] for e in table if e["default"]}
    singles = {(c["class"]["cls"], c["class"]["what"][0]) for c in ans["classes"]
               if not c["class"]["impl_predicts"] and c["class"]["kind"].startswith("same content") and len(c["class"]["what"]) == 1}
    same_route = {(c["class"]["cls"], "") for c in ans["classes"]
                  if not c["class"]["impl_predicts"] and c["class"]["kind"].startswith("same content") and not c["class"]["what"]}
    for c in ans["classes"]:
        k = c["class"]
        detail = {"pairs": c["count"], "differs_in": k["what"], "example": c["example"]}
        if k["impl_predicts"] and k["kind"].startswith("same content"):
            # predicted by the transcription of hashgen: one signature per hidden component (row labels / number dtype / branch dtype)
            for comp in sorted(k["what"]):
                run.violation({"site": "iso_id", "cls": k["cls"], "kind": k["kind"], "depends_on": HIDDEN_NAMES.get(comp, comp), "impl_predicts": True}, detail)
        elif k["kind"].startswith("same content") and k["what"] and ((k["cls"], "") in same_route or (len(k["what"]) > 1 and any((k["cls"], w) in singles for w in k["what"]))):
            run.add("offending_classes_subsumed")      # explained by a pair that differs in ONE of these route factors
        else:
            run.violation({"site": "iso_id", "cls": k["cls"], "kind": k["kind"], "what": "+".join(sorted(k["what"])) or "edit below the rounding step, same route", "impl_predicts": k["impl_predicts"]}, detail)
    groups = {}
    for x in ans["no_identifier"]:
        key = (x["s"]["base"], x["error"], x["s"]["route"]["lit"])
        groups.setdefault(key, []).append(x)
    for (base, err, lit), xs in groups.items():
        run.violation({"site": "iso_id", "cls": cls_of[base], "kind": "no identifier", "route": "numbers as " + lit, "observed": err},
                      {"count": len(xs), "example": xs[0], "error": next((o["error"] for o in obs if o["s"] == xs[0]["s"]), "")})
    for x in ans["changed_by_reads"]:
        bad_reads = sorted({r.split("!")[0] for r in x["reads"]})
        run.violation({"site": "iso_id", "kind": "changed by read-only calls", "cls": cls_of[x["s"]["base"]]}, {**x, "reads": bad_reads})
    for x in ans["clone_differs"]:
        run.violation({"site": "iso_id", "kind": "isotherm rebuilt from to_dict()/data has another identifier", "cls": cls_of[x["s"]["base"]]}, x)
    for x in ans["changed_by_process"]:
        run.violation({"site": "iso_id", "kind": "differs in another process / PYTHONHASHSEED", "cls": cls_of[x["s"]["base"]]}, x)
    if ans["drift_no_identifier"]:
        run.note(f"MODEL-DRIFT: ImplHasId disagrees with the code on {ans['drift_no_identifier']} object(s) (identifier exists where the transcription of hashgen says TypeError, or vice versa)")
    for i in (0, len(obs) // 3, 2 * len(obs) // 3):
        if i < len(obs):
            run.sample({"scenario": obs[i]["s"], "content": kept[i]["content"], "id": obs[i]["id"], "id_after_reads": obs[i]["after"],
                        "reads": obs[i]["reads"], "ids_other_processes": obs[i]["others"]})

    _ph['judge'] = round(_t.time() - _t0, 1); _t0 = _t.time()
    fit_part(run, rng, thorough)
    _ph['fit'] = round(_t.time() - _t0, 1); _t0 = _t.time()
    edit_part(run, rng, thorough, table)
    _ph['edit'] = round(_t.time() - _t0, 1)
    run.set(phase_seconds=_ph)

    run.set(exhaustive=bool(thorough),
            rule="scenario = base content (2 metadata-only, 5 point incl. one with zeros in pressure/loading/supplementary column, 4 model) x minimal mutation (each metadata value/key, each unit label, material, adsorbate, "
                 "temperature, first/last datum of each numeric column +-1e-7, +6e-9, +4e-9, +-1e-10, around zero also -2e-9, -4.9e-9, +2e-9, +-3e-9, +-2e-8 and the zero written as -0.0, branch mark, row removed/swapped, text cell, model "
                 "parameter/range/rmse/branch) x construction route (container, int/float literals, branch as ints/bools/column, direct/from_isotherm/JSON/"
                 "deepcopy/dict, insertion order, adsorbate spelling, metadata as numpy scalars of every kind, branch marks guessed (no marks given) under every row labelling, default unit labels omitted after an isotherm with other units was built, trivial user subclass), enumerated by TLC; " + ("all rows" if thorough else "every mutation on the default route, every route on the unmutated content, 6% seeded of the rest")
                 + "; every object also re-built in " + ("2 other processes" if thorough else "1 other process") + " with another PYTHONHASHSEED and read through a seeded sequence of read-only calls (accessors plus consumers of to_dict()/model.to_dict()/data: clone idioms, from_isotherm, from_modelisotherm, exports, deepcopy; the whole alphabet on the default-route objects); "
                 "all pairs of one base judged by TLC; edit-after-read histories: every mutation applied IN PLACE to a live object whose id was read (iso_id / == / repr / in), through every way of editing (loc, iloc, at, column assignment, drop, properties[], setattr, setters, model.params[]), id compared with a fresh object of the edited content, then undone; non-trivial = not the unmutated default-route object; distinct = distinct (base, mutation, route)")
    run.assume("contents are rendered from the fixed-point records of the spec with decimal arithmetic; no rendered number lies on an 8-decimal rounding tie (InvWellFormed)")
    run.assume("md5 collisions are ignored; an exception in the export step of a 'parse of an export' route makes the route unrealisable (C06), not an identity failure")
    return run.finish()


def replay(path):
    """./check C05 --replay <file>: show the recorded violation and re-run the check at the recorded
    tier and seed (scenario spaces are enumerated deterministically, so the case is visited again)."""
    with open(path) as f:
        rec = json.load(f)
    print("replaying", json.dumps(rec.get("sig"), sort_keys=True))
    return main(rec.get("tier", "quick"), int(rec.get("seed", 0)))
