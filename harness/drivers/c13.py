"""C13 - IAST results satisfy the IAST equations and known closed forms.

1. TLC checks spec/IastMC: on the whole grid (Henry and equal-capacity Langmuir mixtures of 2-4
   components, every order) the rational closed forms satisfy the IAST equations, commute with
   every permutation, and the reverse closed form inverts the forward one.
2. The tables TLC computes (spec/IastOracle: forward and reverse, exact rationals) are replayed into
   iast_point, iast_point_fraction and reverse_iast; float64 results are compared with the rationals.
3. Relational part: for mixtures of all IAST-capable models (spreading pressure defined for all p > 0)
   and of point isotherms the returned loadings are recorded together with the input isotherms' own
   spreading_pressure_at / loading_at at p_i / x_i; spec/IastTrace (through IastOracle) judges
   fractions, equal spreading pressures, ideal mixing, permutation invariance, forward/reverse inversion.
4. Helpers (iast_point_fraction, iast_binary_svp, iast_binary_vle) must return exactly what the point
   calculation gives.
A calculation that raises is 'no result' and is not judged (CalculationError: no convergence).
"""
import random
from fractions import Fraction

from ..common import Run, exc_class, MachineryError, quiet_pygaps
from .. import tlc
from ..encode import dec_enc

PID = "C13"
TOL = 1e-9
BASE = dict(
    material="verif_mat", adsorbate="N2", temperature=77.0,
    pressure_mode="absolute", pressure_unit="bar",
    loading_basis="molar", loading_unit="mmol",
    material_basis="mass", material_unit="g", temperature_unit="K",
)


def fr(nd):
    return Fraction(nd[0], nd[1])


def close(a, b, tol=TOL):
    a, b = float(a), float(b)
    if a != a or b != b:
        return False
    return abs(a - b) <= tol * max(abs(a), abs(b), 1e-300)


def enc(v):
    return [dec_enc(float(x)) for x in v]


def main(tier, seed):
    import numpy
    quiet_pygaps()
    import pygaps
    import pygaps.iast.pgiast as ia
    from pygaps.modelling import get_isotherm_model
    run = Run(PID, tier, seed, "exploration")
    rng = random.Random(seed)
    thorough = tier == "thorough"

    # ================= 1. the closed forms satisfy the IAST equations (TLC, exhaustive on the grid)
    res = tlc.must_pass("IastMC", cfg="IastMC" if thorough else "IastMCquick", timeout=900)
    run.set(states=res["distinct"], transitions=res["states_generated"],
            tlc_invariants=["InvFractions", "InvEqualSpreading", "InvIdealMixing", "InvPermutation", "InvInverse", "InvRejectsWrong"],
            tlc_grid="2-4 components" if thorough else "2-3 components (4 in the thorough tier)")

    # ---- isotherm construction
    cache = {}

    def model_iso(name, params, ads="N2"):
        key = (name, tuple(sorted(params.items())))
        if key not in cache:
            m = get_isotherm_model(name, parameters=dict(params), pressure_range=(0.0, 1000.0), loading_range=(0.0, 100.0))
            cache[key] = pygaps.ModelIsotherm(model=m, **BASE)
        return cache[key]

    def rational_iso(fam, M, k):
        if fam == "henry":
            return model_iso("Henry", {"K": float(fr(k))})
        return model_iso("Langmuir", {"K": float(fr(k)), "n_m": float(fr(M))})

    counters = {"no_result": 0, "crash": {}}

    def attempt(site, cfg, fn, judged_crash):
        """Run an IAST call; returns result or None. CalculationError = no result (not judged)."""
        try:
            return fn()
        except Exception as e:
            cls = exc_class(e)
            if cls == "CalculationError":
                counters["no_result"] += 1
            elif judged_crash:
                run.violation({"site": site, "config": cfg, "observed": "exception:" + cls}, {"message": str(e)[:300]})
            else:
                counters["crash"][cls] = counters["crash"].get(cls, 0) + 1
            return None

    judge_recs, judge_meta = [], []

    def add(rec, meta):
        judge_recs.append(rec)
        judge_meta.append(meta)

    # ================= 2. rational tables
    plan = [(2, 1), (3, 1 if thorough else 3), (4, 1 if thorough else 27)]
    nrows = 0
    for n, stride in plan:
        off = seed % stride
        fwd, rev = tlc.oracle("IastOracle", [{"k": "forward", "n": n, "stride": stride, "offset": off},
                                             {"k": "reverse", "n": n, "stride": stride, "offset": off}], timeout=900)
        for row in fwd["rows"]:
            isos = [rational_iso(row["fam"], row["M"], k) for k in row["K"]]
            p = numpy.array([float(fr(x)) for x in row["p"]])
            cfg = f"{row['fam']} closed form, {n} components"
            exp = [float(fr(x)) for x in row["load"]]
            key = ("fwd", row["fam"], tuple(map(tuple, row["K"])), tuple(map(tuple, row["p"])), tuple(row["M"]))
            run.count(key, nontrivial=len({tuple(k) for k in row["K"]}) > 1 or len({tuple(x) for x in row["p"]}) > 1)
            nrows += 1
            got = attempt("iast_point", cfg, lambda: ia.iast_point(isos, p, warningoff=bool(nrows % 2)), True)
            if got is None:
                continue
            if len(got) != n or not all(close(g, e) for g, e in zip(got, exp)):
                run.violation({"site": "iast_point", "config": cfg, "observed": "loadings differ from the closed form"},
                              {"K": row["K"], "p": row["p"], "M": row["M"], "expected": exp, "returned": list(map(float, got))})
                continue
            if nrows % 7 == 0:
                # fraction helper: must be the point calculation at y * P
                P = float(sum(p))
                y = p / P
                direct = attempt("iast_point", cfg, lambda: ia.iast_point(isos, numpy.asarray(y) * P, warningoff=True), True)
                viaf = attempt("iast_point_fraction", cfg, lambda: ia.iast_point_fraction(isos, y, P, warningoff=True), True)
                if direct is not None and viaf is not None:
                    run.count(("fraction", key))
                    add({"k": "same", "a": enc(direct), "b": enc(viaf)}, {"site": "iast_point_fraction", "config": cfg})
                    if not numpy.array_equal(numpy.asarray(direct), numpy.asarray(viaf)):
                        run.violation({"site": "iast_point_fraction", "config": cfg, "observed": "helper_differs_from_point_calculation"},
                                      {"direct": list(map(float, direct)), "helper": list(map(float, viaf))})
            if nrows % 11 == 0 and n >= 2:
                # permuted order on the real code
                sigma = list(range(n))
                rng.shuffle(sigma)
                gp = attempt("iast_point", cfg, lambda: ia.iast_point([isos[j] for j in sigma], p[sigma], warningoff=True), True)
                if gp is not None:
                    run.count(("perm", key, tuple(sigma)), nontrivial=sigma != sorted(sigma))
                    add({"k": "perm", "a": enc(got), "b": enc(gp), "sigma": [j + 1 for j in sigma]}, {"site": "iast_point", "config": cfg + ", permuted order"})
        for row in rev["rows"]:
            isos = [rational_iso(row["fam"], row["M"], k) for k in row["K"]]
            x = numpy.array([float(fr(v)) for v in row["x"]])
            P = float(fr(row["P"]))
            cfg = f"{row['fam']} closed form, {n} components"
            key = ("rev", row["fam"], tuple(map(tuple, row["K"])), tuple(map(tuple, row["x"])), tuple(row["P"]), tuple(row["M"]))
            run.count(key, nontrivial=len({tuple(k) for k in row["K"]}) > 1)
            got = attempt("reverse_iast", cfg, lambda: ia.reverse_iast(isos, x, P, warningoff=True), True)
            if got is None:
                continue
            y, load = got
            ey = [float(fr(v)) for v in row["y"]]
            el = [float(fr(v)) for v in row["load"]]
            if not (len(y) == n and len(load) == n and all(close(a, b) for a, b in zip(y, ey)) and all(close(a, b) for a, b in zip(load, el))):
                run.violation({"site": "reverse_iast", "config": cfg, "observed": "gas fractions / loadings differ from the closed form"},
                              {"K": row["K"], "x": row["x"], "P": row["P"], "M": row["M"], "expected_y": ey, "returned_y": list(map(float, y)),
                               "expected_load": el, "returned_load": list(map(float, load))})
    run.set(rational_rows=nrows)

    # ================= 3. relational part
    PAR = {
        "Henry": [{"K": 2.0}, {"K": 0.5}],
        "Langmuir": [{"K": 0.5, "n_m": 2.0}, {"K": 3.0, "n_m": 5.0}],
        "DSLangmuir": [{"n_m1": 1.0, "K1": 0.5, "n_m2": 2.0, "K2": 5.0}, {"n_m1": 3.0, "K1": 0.25, "n_m2": 0.5, "K2": 2.0}],
        "TSLangmuir": [{"n_m1": 1.0, "K1": 0.5, "n_m2": 2.0, "K2": 5.0, "n_m3": 0.5, "K3": 20.0}],
        "Quadratic": [{"n_m": 2.0, "Ka": 0.5, "Kb": 0.25}, {"n_m": 1.0, "Ka": 2.0, "Kb": 1.0}],
        "TemkinApprox": [{"n_m": 5.0, "K": 0.5, "tht": 0.25}, {"n_m": 2.0, "K": 2.0, "tht": 0.5}],
        "Toth": [{"n_m": 5.0, "K": 0.5, "t": 2.0}, {"n_m": 2.0, "K": 2.0, "t": 0.5}],
        "JensenSeaton": [{"K": 5.0, "a": 5.0, "b": 0.25, "c": 1.0}, {"K": 2.0, "a": 1.0, "b": 0.05, "c": 2.0}],
    }
    import pygaps.modelling as pgm
    for name in PAR:
        if name not in pgm._IAST_MODELS:
            raise MachineryError(f"{name} is no longer in the IAST whitelist")
    pool = [(f"{n}#{i}", model_iso(n, par)) for n, ps in PAR.items() for i, par in enumerate(ps)]
    pgrid = numpy.concatenate([numpy.linspace(0.05, 1, 12), numpy.linspace(1.5, 400, 60)])
    for n in ("Langmuir", "Toth", "DSLangmuir", "Henry"):
        m = get_isotherm_model(n, parameters=dict(PAR[n][0]))
        pool.append((f"points:{n}", pygaps.PointIsotherm(pressure=pgrid, loading=m.loading(pgrid), branch="ads", **BASE)))
    pvals = [0.1, 0.5, 1.0, 2.0, 5.0]

    def observe(isos, p, load):
        """the input isotherms' own answers at p_i / x_i"""
        load = numpy.asarray(load, dtype=float)
        x = load / load.sum()
        p0 = numpy.asarray(p, dtype=float) / x
        pi = [float(i.spreading_pressure_at(q)) for i, q in zip(isos, p0)]
        n0 = [float(i.loading_at(q)) for i, q in zip(isos, p0)]
        return p0, pi, n0

    def guesses(n):
        out = [None, [1.0 / n] * n]
        w = numpy.array([2.0 ** (-k) for k in range(n)])
        out.append(list(w / w.sum()))
        out.append(list((w / w.sum())[::-1]))
        return out

    ntrials = 2400 if thorough else 220
    for trial in range(ntrials):
        n = 2 + trial % 3
        comp = rng.sample(pool, n)
        names = [c[0] for c in comp]
        isos = [c[1] for c in comp]
        p = numpy.array([rng.choice(pvals) for _ in range(n)])
        g = guesses(n)[trial % 4 if trial % 5 == 0 else 0]
        cfg = ("point isotherms" if any(x.startswith("points:") for x in names) else "model isotherms") + f", {n} components"
        key = ("rel", tuple(names), tuple(p.tolist()), None if g is None else tuple(g))
        load = attempt("iast_point", cfg, lambda: ia.iast_point(isos, p, adsorbed_mole_fraction_guess=g, warningoff=bool(trial % 2)), False)
        run.count(key, nontrivial=load is not None)
        if load is None:
            continue
        load = numpy.asarray(load, dtype=float)
        if not numpy.all(numpy.isfinite(load)) or load.sum() <= 0:
            run.violation({"site": "iast_point", "config": cfg, "observed": "returned loadings are not finite positive numbers"},
                          {"components": names, "p": p.tolist(), "returned": load.tolist()})
            continue
        try:
            p0, pi, n0 = observe(isos, p, load)
        except Exception as e:
            run.violation({"site": "iast_point", "config": cfg, "observed": "input isotherms cannot be evaluated at p_i/x_i of the returned result: " + exc_class(e)},
                          {"components": names, "p": p.tolist(), "returned": load.tolist(), "message": str(e)[:200]})
            continue
        add({"k": "point", "p": enc(p), "load": enc(load), "p0": enc(p0), "pi": enc(pi), "n0": enc(n0)},
            {"site": "iast_point", "config": cfg, "components": names, "p": p.tolist(), "guess": g})
        # permutation
        if trial % 2 == 0:
            sigma = list(range(n))
            rng.shuffle(sigma)
            gp = attempt("iast_point", cfg, lambda: ia.iast_point([isos[j] for j in sigma], p[sigma], warningoff=True), False)
            if gp is not None:
                run.count(("relperm", key, tuple(sigma)), nontrivial=sigma != sorted(sigma))
                add({"k": "perm", "a": enc(load), "b": enc(gp), "sigma": [j + 1 for j in sigma]},
                    {"site": "iast_point", "config": cfg + ", permuted order", "components": names, "p": p.tolist()})
        # forward then reverse
        x = load / load.sum()
        if float(numpy.sum(x)) != 1.0:
            x = x.copy()
            x[-1] = 1.0 - float(numpy.sum(x[:-1]))
        if float(numpy.sum(x)) == 1.0 and trial % 3 != 2:
            P = float(p.sum())
            back = attempt("reverse_iast", cfg, lambda: ia.reverse_iast(isos, x, P, gas_mole_fraction_guess=list(p / P) if trial % 2 else None, warningoff=True), False)
            if back is not None:
                y, l2 = back
                run.count(("inverse", key))
                add({"k": "close", "a": enc(p / P), "b": enc(y)}, {"site": "reverse_iast", "config": cfg + ", inverse of iast_point (gas fractions)", "components": names, "p": p.tolist()})
                add({"k": "close", "a": enc(load), "b": enc(l2)}, {"site": "reverse_iast", "config": cfg + ", inverse of iast_point (loadings)", "components": names, "p": p.tolist()})
    # reverse problem on binary fractions, then forward
    xsets = {2: [[0.25, 0.75], [0.5, 0.5], [0.75, 0.25], [0.125, 0.875]],
             3: [[0.5, 0.25, 0.25], [0.25, 0.375, 0.375], [0.125, 0.125, 0.75], [0.125, 0.375, 0.5]],
             4: [[0.25, 0.25, 0.25, 0.25], [0.5, 0.25, 0.125, 0.125], [0.125, 0.375, 0.25, 0.25]]}
    # seeded mixtures, preceded by a fixed family (every model isotherm paired with each TemkinApprox
    # isotherm at x = 1/2) so that every run, whatever the seed, visits the same binaries
    fixed = [([c, t], [0.5, 0.5], P) for c in pool if not c[0].startswith(("points:", "TemkinApprox"))
             for t in pool if t[0].startswith("TemkinApprox") for P in (0.5, 2.0)]
    for trial in range(-len(fixed), ntrials // 2):
        if trial < 0:
            comp, xx, P = fixed[trial]
            n = 2
            x = numpy.array(xx)
        else:
            n = 2 + trial % 3
            comp = rng.sample(pool, n)
            x = numpy.array(rng.choice(xsets[n]))
            rng.shuffle(x)
            P = rng.choice([0.5, 1.0, 2.0, 5.0])
        names = [c[0] for c in comp]
        isos = [c[1] for c in comp]
        cfg = ("point isotherms" if any(v.startswith("points:") for v in names) else "model isotherms") + f", {n} components"
        key = ("relrev", tuple(names), tuple(x.tolist()), P)
        back = attempt("reverse_iast", cfg, lambda: ia.reverse_iast(isos, x, P, warningoff=True), False)
        run.count(key, nontrivial=back is not None)
        if back is None:
            continue
        y, load = (numpy.asarray(v, dtype=float) for v in back)
        if not (numpy.all(numpy.isfinite(load)) and numpy.all(numpy.isfinite(y)) and load.sum() > 0):
            # typically a spurious root at a gas fraction of exactly 0 (p0 = 0): name the component sitting there
            zero = sorted({nm.split("#")[0] for nm, yy in zip(names, y) if not yy > 0})
            run.violation({"site": "reverse_iast", "config": cfg, "observed": "returned values are not finite positive numbers",
                           "component_at_zero_pressure": "+".join(zero) if zero else "none"},
                          {"components": names, "x": x.tolist(), "P": P, "y": y.tolist(), "load": load.tolist()})
            continue
        p = y * P
        try:
            p0, pi, n0 = observe(isos, p, load)
        except Exception as e:
            run.violation({"site": "reverse_iast", "config": cfg, "observed": "input isotherms cannot be evaluated at p_i/x_i of the returned result: " + exc_class(e)},
                          {"components": names, "x": x.tolist(), "P": P, "message": str(e)[:200]})
            continue
        add({"k": "revobs", "x": enc(x), "P": dec_enc(P), "y": enc(y), "p": enc(p), "load": enc(load), "p0": enc(p0), "pi": enc(pi), "n0": enc(n0)},
            {"site": "reverse_iast", "config": cfg, "components": names, "x": x.tolist(), "P": P})
        fwd = attempt("iast_point_fraction", cfg, lambda: ia.iast_point_fraction(isos, y, P, warningoff=True), False)
        if fwd is not None:
            run.count(("inverse2", key))
            add({"k": "close", "a": enc(load), "b": enc(fwd)}, {"site": "iast_point_fraction", "config": cfg + ", inverse of reverse_iast", "components": names, "x": x.tolist(), "P": P})

    # ================= 4. helpers
    binaries = [[rational_iso("langmuir", [2, 1], [1, 2]), rational_iso("langmuir", [2, 1], [3, 1])],
                [rational_iso("henry", [1, 1], [1, 2]), rational_iso("henry", [1, 1], [3, 1])]]
    for _ in range(10 if thorough else 4):
        binaries.append([c[1] for c in rng.sample(pool, 2)])
    for bi, isos in enumerate(binaries):
        cfg = "binary helper"
        for y in ([0.25, 0.75], [0.5, 0.5], [0.1, 0.9]):
            pressures = [0.5, 1.0, 2.0, 5.0][: 4 if thorough else 3]
            out = attempt("iast_binary_svp", cfg, lambda: ia.iast_binary_svp(isos, y, pressures, warningoff=True), False)
            run.count(("svp", bi, tuple(y)), nontrivial=out is not None)
            if out is None:
                continue
            exp = []
            ok = True
            for P in pressures:
                l = attempt("iast_point", cfg, lambda: ia.iast_point(isos, numpy.asarray(y) * P, warningoff=True), False)
                if l is None:
                    ok = False
                    break
                exp.append((l[0] / numpy.asarray(y)[0]) / (l[1] / numpy.asarray(y)[1]))
            if not ok:
                continue
            got = [float(s) for s in out["selectivity"]]
            add({"k": "same", "a": enc(exp), "b": enc(got)}, {"site": "iast_binary_svp", "config": cfg})
            add({"k": "same", "a": enc(pressures), "b": enc(list(out["pressure"]))}, {"site": "iast_binary_svp", "config": cfg + " (pressure axis)"})
            if [float(e) for e in exp] != got:
                run.violation({"site": "iast_binary_svp", "config": cfg, "observed": "helper_differs_from_point_calculation"}, {"expected": [float(e) for e in exp], "returned": got})
        for P in ([1.0, 3.0] if thorough else [1.0 + bi % 2]):
            k = 7 if thorough else 5
            out = attempt("iast_binary_vle", cfg, lambda: ia.iast_binary_vle(isos, P, npoints=k, warningoff=True), False)
            run.count(("vle", bi, P), nontrivial=out is not None)
            if out is None:
                continue
            ys = numpy.linspace(0.01, 0.99, k)
            ex = [0.0]
            ok = True
            for yy in ys:
                l = attempt("iast_point", cfg, lambda: ia.iast_point(isos, numpy.asarray([yy, 1 - yy]) * P, warningoff=True), False)
                if l is None:
                    ok = False
                    break
                ex.append(l[0] / (l[0] + l[1]))
            if not ok:
                continue
            ex.append(1.0)
            ey = [0.0] + list(ys) + [1.0]
            add({"k": "same", "a": enc(ex), "b": enc(list(out["x"]))}, {"site": "iast_binary_vle", "config": cfg})
            add({"k": "same", "a": enc(ey), "b": enc(list(out["y"]))}, {"site": "iast_binary_vle", "config": cfg + " (gas fraction axis)"})
            if [float(v) for v in ex] != [float(v) for v in out["x"]] or [float(v) for v in ey] != [float(v) for v in out["y"]]:
                run.violation({"site": "iast_binary_vle", "config": cfg, "observed": "helper_differs_from_point_calculation"},
                              {"expected_x": [float(v) for v in ex], "returned_x": [float(v) for v in out["x"]]})

    # ================= judge
    answers = tlc.oracle("IastOracle", judge_recs, timeout=900, chunk=5000) if judge_recs else []
    for rec, meta, a in zip(judge_recs, judge_meta, answers):
        if not a["ok"]:
            cls = meta["config"]
            run.violation({"site": meta["site"], "config": cls, "observed": a["clause"]},
                          {k: v for k, v in meta.items() if k not in ("site", "config")} | {"record": {k: rec[k] for k in rec if k != "k"}})
    run.add("traces_validated_against_impl", len(judge_recs))
    kinds = {}
    for r in judge_recs:
        kinds[r["k"]] = kinds.get(r["k"], 0) + 1
    run.set(judged_observations=kinds, not_judged_no_result=counters["no_result"], not_judged_crash=counters["crash"])
    if counters["crash"]:
        run.note("not judged (the property is conditional on 'returns'): non-pyGAPS exceptions raised by IAST calls: " + str(counters["crash"]))
    for r, m in list(zip(judge_recs, judge_meta))[:1] + [x for x in zip(judge_recs, judge_meta) if x[0]["k"] == "point"][:2] + [x for x in zip(judge_recs, judge_meta) if x[0]["k"] == "revobs"][:1]:
        run.sample({"observation": r["k"], **{k: v for k, v in m.items()}, "record": {k: r[k] for k in r if k != "k"}})
    if nrows == 0 or kinds.get("point", 0) < 20:
        raise MachineryError("vacuous run: too few IAST calculations returned a result to be judged")
    run.set(exhaustive=False, rational_grid_complete=bool(thorough),
            rule="rational part: every " + "/".join(f"{s}-th" if s > 1 else "one" for _, s in plan) + " grid point of spec/Iast (Henry and equal-capacity Langmuir, 2/3/4 components, "
                 "K in {1/2,1,3}, p in {1,2,5}, all orders; reverse problem on binary fractions summing to 1) replayed into iast_point / reverse_iast / iast_point_fraction; "
                 "relational part: seeded mixtures of 2-4 components drawn from 16 model isotherms (8 IAST-capable models) and 4 point isotherms, partial pressures in {0.1..5}, "
                 "default and 3 user starting guesses, permuted orders, forward->reverse and reverse->forward; helpers on binary mixtures; "
                 "non-trivial: components or pressures differ / the call returned a result; distinct = distinct (kind, mixture, pressures, guess)")
    run.assume("the input isotherms' own spreading_pressure_at / loading_at are observations (their correctness is C10/C11)")
    run.assume("BET is excluded: its spreading pressure is not defined for all p > 0 (property quantifier)")
    run.assume("calls that raise are 'no result' and are not judged; for the rational families any exception other than CalculationError is reported")
    return run.finish()
