"""C13 - IAST results satisfy the IAST equations and known closed forms.

1. TLC checks spec/IastMC: on the whole grid (Henry and equal-capacity Langmuir mixtures of 2-4
   components, every order) the rational closed forms satisfy the IAST equations, commute with
   every permutation, and the reverse closed form inverts the forward one.
2. The tables TLC computes (spec/IastOracle: forward and reverse, exact rationals) are replayed into
   iast_point, iast_point_fraction and reverse_iast; float64 results are compared with the rationals.
3. Relational part: for mixtures of all IAST-capable models (spreading pressure defined for all p > 0)
   and of point isotherms the returned loadings are recorded together with the input isotherms' own
   spreading_pressure_at / loading_at at p_i / x_i; spec/IastTrace (through IastOracle) judges
   fractions, equal spreading pressures, ideal mixing, permutation invariance, forward/reverse inversion.
4. Helpers (iast_point_fraction, iast_binary_svp, iast_binary_vle) must return exactly what the point
   calculation gives.
A calculation that raises is 'no result' and is not judged (CalculationError: no convergence).
"""
import random
from fractions import Fraction

from ..common import Run, exc_class, MachineryError, quiet_pygaps
from .. import tlc
from ..encode import dec_enc

PID = "C13"
TOL = 1e-9
BASE = dict(
    material="verif_mat", adsorbate="N2", temperature=77.0,
    pressure_mode="absolute", pressure_unit="bar",
    loading_basis="molar", loading_unit="mmol",
    material_basis="mass", material_unit="g", temperature_unit="K",
)


def fr(nd):
    return Fraction(nd[0], nd[1])


def close(a, b, tol=TOL):
    a, b = float(a), float(b)
    if a != a or b != b:
        return False
    return abs(a - b) <= tol * max(abs(a), abs(b), 1e-300)


def enc(v):
    return [dec_enc(float(x)) for x in v]


def main(tier, seed):
    import numpy
    quiet_pygaps()
    import pygaps
    import pygaps.iast.pgiast as ia
    from pygaps.modelling import get_isotherm_model
    run = Run(PID, tier, seed, "exploration")
    rng = random.Random(seed)
    thorough = tier == "thorough"

    # ================= 1. the closed forms satisfy the IAST equations (TLC, exhaustive on the grid)
    res = tlc.must_pass("IastMC", cfg="IastMC" if thorough else "IastMCquick", timeout=900)
    run.set(states=res["distinct"], transitions=res["states_generated"],
            tlc_invariants=["InvFractions", "InvEqualSpreading", "InvIdealMixing", "InvPermutation", "InvInverse", "InvRejectsWrong"],
            tlc_grid="2-4 components" if thorough else "2-3 components (4 in the thorough tier)")

    # ---- isotherm construction
    cache = {}

    def model_iso(name, params, ads="N2"):
        key = (name, tuple(sorted(params.items())))
        if key not in cache:
            m = get_isotherm_model(name, parameters=dict(params), pressure_range=(0.0, 1000.0), loading_range=(0.0, 100.0))
            cache[key] = pygaps.ModelIsotherm(model=m, **BASE)
        return cache[key]

    def rational_iso(fam, M, k):
        if fam == "henry":
            return model_iso("Henry", {"K": float(fr(k))})
        return model_iso("Langmuir", {"K": float(fr(k)), "n_m": float(fr(M))})

    counters = {"no_result": 0, "crash": {}}

    def attempt(site, cfg, fn, judged_crash):
        """Run an IAST call; returns result or None. CalculationError = no result (not judged)."""
        try:
            return fn()
        except Exception as e:
            cls = exc_class(e)
            if cls == "CalculationError":
                counters["no_result"] += 1
            elif judged_crash:
                run.violation({"site": site, "config": cfg, "observed": "exception:" + cls}, {"message": str(e)[:300]})
            else:
                counters["crash"][cls] = counters["crash"].get(cls, 0) + 1
            return None

    judge_recs, judge_meta = [], []

    def add(rec, meta):
        judge_recs.append(rec)
        judge_meta.append(meta)

    # ================= 2. rational tables
    plan = [(2, 1), (3, 1 if thorough else 3), (4, 1 if thorough else 27)]
    nrows = 0
    for n, stride in plan:
        off = seed % stride
        fwd, rev = tlc.oracle("IastOracle", [{"k": "forward", "n": n, "stride": stride, "offset": off},
                                             {"k": "reverse", "n": n, "stride": stride, "offset": off}], timeout=900)
        for row in fwd["rows"]:
            isos = [rational_iso(row["fam"], row["M"], k) for k in row["K"]]
            p = numpy.array([float(fr(x)) for x in row["p"]])
            cfg = f"{row['fam']} closed form, {n} components"
            exp = [float(fr(x)) for x in row["load"]]
            key = ("fwd", row["fam"], tuple(map(tuple, row["K"])), tuple(map(tuple, row["p"])), tuple(row["M"]))
            run.count(key, nontrivial=len({tuple(k) for k in row["K"]}) > 1 or len({tuple(x) for x in row["p"]}) > 1)
            nrows += 1
            got = attempt("iast_point", cfg, lambda: ia.iast_point(isos, p, warningoff=bool(nrows % 2)), True)
            if got is None:
                continue
            if len(got) != n or not all(close(g, e) for g, e in zip(got, exp)):
                run.violation({"site": "iast_point", "config": cfg, "observed": "loadings differ from the closed form"},
                              {"K": row["K"], "p": row["p"], "M": row["M"], "expected": exp, "returned": list(map(float, got))})
                continue
            if nrows % 7 == 0:
                # fraction helper: must be the point calculation at y * P - for fractions that add up to one and for a
                # feed with an inert carrier (fractions adding up to less than one); same closed form either way
                for tag, P in (("fractions sum to 1", float(sum(p))), ("fractions sum to 1/2 (inert carrier)", 2.0 * float(sum(p)))):
                    y = p / P
                    direct = attempt("iast_point", cfg, lambda: ia.iast_point(isos, numpy.asarray(y) * P, warningoff=True), True)
                    if direct is None:
                        continue
                    detail = {"gas_fractions": y.tolist(), "total_pressure": P}
                    try:
                        viaf = ia.iast_point_fraction(isos, y, P, warningoff=True)
                    except Exception as e:
                        run.violation({"site": "iast_point_fraction", "config": cfg + ", " + tag,
                                       "observed": "helper raises although the point calculation returns: " + exc_class(e)}, detail)
                        continue
                    run.count(("fraction", key, tag))
                    add({"k": "same", "a": enc(direct), "b": enc(viaf)}, {"site": "iast_point_fraction", "config": cfg + ", " + tag})
                    if not numpy.array_equal(numpy.asarray(direct), numpy.asarray(viaf)):
                        run.violation({"site": "iast_point_fraction", "config": cfg + ", " + tag, "observed": "helper_differs_from_point_calculation"},
                                      {"direct": list(map(float, direct)), "helper": list(map(float, viaf)), **detail})
                    if not all(close(g, e) for g, e in zip(viaf, exp)):
                        run.violation({"site": "iast_point_fraction", "config": cfg + ", " + tag, "observed": "loadings differ from the closed form"},
                                      {"expected": exp, "returned": list(map(float, viaf)), **detail})
            if nrows % 5 == 0:
                # integer-typed inputs of equal value (the grid pressures are integers): lists of Python ints, integer arrays,
                # a Python int as total pressure - same result as the float input, same closed form
                pint = [int(v) for v in p]
                Pint = int(sum(pint))
                variants = [("list of ints", lambda: ia.iast_point(isos, pint, warningoff=True)),
                            ("integer array", lambda: ia.iast_point(isos, numpy.array(pint), warningoff=True)),
                            ("fractions with an integer total pressure", lambda: ia.iast_point_fraction(isos, [v / Pint for v in pint], Pint, warningoff=True))]
                for vt, fn in (variants if thorough else [variants[(nrows // 5 + seed) % 3], variants[(nrows // 5 + seed + 1) % 3]]):
                    r = attempt("iast_point", cfg + ", " + vt, fn, True)
                    if r is None:
                        run.violation({"site": "iast_point", "config": cfg + ", " + vt, "observed": "integer-typed input refused although the float input of equal value returns"}, {"p": pint})
                        continue
                    run.count(("int", key, vt))
                    if vt != "fractions with an integer total pressure":
                        add({"k": "same", "a": enc(got), "b": enc(r)}, {"site": "iast_point", "config": cfg + ", " + vt + " vs float input"})
                    if not all(close(g, e) for g, e in zip(r, exp)):
                        run.violation({"site": "iast_point", "config": cfg + ", " + vt, "observed": "loadings differ from the closed form"},
                                      {"K": row["K"], "p": pint, "expected": exp, "returned": list(map(float, r))})
            if nrows % 11 == 0 and n >= 2:
                # permuted order on the real code
                sigma = list(range(n))
                rng.shuffle(sigma)
                gp = attempt("iast_point", cfg, lambda: ia.iast_point([isos[j] for j in sigma], p[sigma], warningoff=True), True)
                if gp is not None:
                    run.count(("perm", key, tuple(sigma)), nontrivial=sigma != sorted(sigma))
                    add({"k": "perm", "a": enc(got), "b": enc(gp), "sigma": [j + 1 for j in sigma]}, {"site": "iast_point", "config": cfg + ", permuted order"})
        for row in rev["rows"]:
            isos = [rational_iso(row["fam"], row["M"], k) for k in row["K"]]
            x = numpy.array([float(fr(v)) for v in row["x"]])
            P = float(fr(row["P"]))
            cfg = f"{row['fam']} closed form, {n} components"
            key = ("rev", row["fam"], tuple(map(tuple, row["K"])), tuple(map(tuple, row["x"])), tuple(row["P"]), tuple(row["M"]))
            run.count(key, nontrivial=len({tuple(k) for k in row["K"]}) > 1)
            x_before = x.copy()
            Parg = int(P) if (len(judge_recs) + int(P)) % 2 else P            # the grid pressures are integers: pass them as Python ints half of the time
            got = attempt("reverse_iast", cfg, lambda: ia.reverse_iast(isos, x, Parg, warningoff=True), True)
            if not numpy.array_equal(x, x_before):
                run.add("caller_array_changed_not_judged")
                x = x_before
            if got is None:
                continue
            y, load = got
            ey = [float(fr(v)) for v in row["y"]]
            el = [float(fr(v)) for v in row["load"]]
            if not (len(y) == n and len(load) == n and all(close(a, b) for a, b in zip(y, ey)) and all(close(a, b) for a, b in zip(load, el))):
                run.violation({"site": "reverse_iast", "config": cfg, "observed": "gas fractions / loadings differ from the closed form"},
                              {"K": row["K"], "x": row["x"], "P": row["P"], "M": row["M"], "expected_y": ey, "returned_y": list(map(float, y)),
                               "expected_load": el, "returned_load": list(map(float, load))})
    run.set(rational_rows=nrows)

    # ================= 3. relational part
    PAR = {
        "Henry": [{"K": 2.0}, {"K": 0.5}],
        "Langmuir": [{"K": 0.5, "n_m": 2.0}, {"K": 3.0, "n_m": 5.0}],
        "DSLangmuir": [{"n_m1": 1.0, "K1": 0.5, "n_m2": 2.0, "K2": 5.0}, {"n_m1": 3.0, "K1": 0.25, "n_m2": 0.5, "K2": 2.0}],
        "TSLangmuir": [{"n_m1": 1.0, "K1": 0.5, "n_m2": 2.0, "K2": 5.0, "n_m3": 0.5, "K3": 20.0}],
        "Quadratic": [{"n_m": 2.0, "Ka": 0.5, "Kb": 0.25}, {"n_m": 1.0, "Ka": 2.0, "Kb": 1.0}],
        "TemkinApprox": [{"n_m": 5.0, "K": 0.5, "tht": 0.25}, {"n_m": 2.0, "K": 2.0, "tht": 0.5}],
        "Toth": [{"n_m": 5.0, "K": 0.5, "t": 2.0}, {"n_m": 2.0, "K": 2.0, "t": 0.5}],
        "JensenSeaton": [{"K": 5.0, "a": 5.0, "b": 0.25, "c": 0.7}, {"K": 2.0, "a": 1.0, "b": 0.05, "c": 2.0}],
    }
    import pygaps.modelling as pgm
    for name in PAR:
        if name not in pgm._IAST_MODELS:
            raise MachineryError(f"{name} is no longer in the IAST whitelist")
    pool = [(f"{n}#{i}", model_iso(n, par)) for n, ps in PAR.items() for i, par in enumerate(ps)]
    pgrid = numpy.concatenate([numpy.linspace(0.05, 1, 12), numpy.linspace(1.5, 400, 60)])
    for n in ("Langmuir", "Toth", "DSLangmuir", "Henry"):
        m = get_isotherm_model(n, parameters=dict(PAR[n][0]))
        pool.append((f"points:{n}", pygaps.PointIsotherm(pressure=pgrid, loading=m.loading(pgrid), branch="ads", **BASE)))
    pvals = [0.1, 0.5, 1.0, 2.0, 5.0]

    def observe(isos, p, load, branch="ads"):
        """the input isotherms' own answers at p_i / x_i, on the branch the calculation was asked for"""
        load = numpy.asarray(load, dtype=float)
        x = load / load.sum()
        p0 = numpy.asarray(p, dtype=float) / x
        pi = [float(i.spreading_pressure_at(q, branch=branch)) for i, q in zip(isos, p0)]
        n0 = [float(i.loading_at(q, branch=branch)) for i, q in zip(isos, p0)]
        return p0, pi, n0, quadrature(isos, p0, pi)

    from scipy import integrate

    def quadrature(isos, p0, pi):
        """independent quadrature of n/p of the input isotherm's own loading_at (model isotherms)"""
        piq, hasq = [], []
        for iso, q, fallback in zip(isos, p0, pi):
            if isinstance(iso, pygaps.ModelIsotherm) and numpy.isfinite(q) and q > 0:
                val = integrate.quad(lambda t: float(iso.loading_at(t)) / t, 0.0, float(q), limit=200, epsabs=0.0, epsrel=1e-10)[0]
                piq.append(float(val))
                hasq.append(bool(numpy.isfinite(val)))
                if not hasq[-1]:
                    piq[-1] = fallback
            else:
                piq.append(fallback)
                hasq.append(False)
        return {"piq": enc(piq), "hasq": hasq}

    def guesses(n):
        out = [None, [1.0 / n] * n]
        w = numpy.array([2.0 ** (-k) for k in range(n)])
        out.append(list(w / w.sum()))
        out.append(list((w / w.sum())[::-1]))
        return out

    ntrials = 2400 if thorough else 220
    for trial in range(ntrials):
        n = 2 + trial % 3
        comp = rng.sample(pool, n)
        names = [c[0] for c in comp]
        isos = [c[1] for c in comp]
        p = numpy.array([rng.choice(pvals) for _ in range(n)])
        g = guesses(n)[trial % 4 if trial % 5 == 0 else 0]
        cfg = ("point isotherms" if any(x.startswith("points:") for x in names) else "model isotherms") + f", {n} components"
        key = ("rel", tuple(names), tuple(p.tolist()), None if g is None else tuple(g))
        load = attempt("iast_point", cfg, lambda: ia.iast_point(isos, p, adsorbed_mole_fraction_guess=g, warningoff=bool(trial % 2)), False)
        run.count(key, nontrivial=load is not None)
        if load is None:
            continue
        load = numpy.asarray(load, dtype=float)
        if not numpy.all(numpy.isfinite(load)) or load.sum() <= 0:
            run.violation({"site": "iast_point", "config": cfg, "observed": "returned loadings are not finite positive numbers"},
                          {"components": names, "p": p.tolist(), "returned": load.tolist()})
            continue
        try:
            p0, pi, n0, qd = observe(isos, p, load)
        except Exception as e:
            run.violation({"site": "iast_point", "config": cfg, "observed": "input isotherms cannot be evaluated at p_i/x_i of the returned result: " + exc_class(e)},
                          {"components": names, "p": p.tolist(), "returned": load.tolist(), "message": str(e)[:200]})
            continue
        add({"k": "point", "p": enc(p), "load": enc(load), "p0": enc(p0), "pi": enc(pi), "n0": enc(n0), **qd},
            {"site": "iast_point", "config": cfg, "components": names, "p": p.tolist(), "guess": g})
        # permutation
        if trial % 2 == 0:
            sigma = list(range(n))
            rng.shuffle(sigma)
            gp = attempt("iast_point", cfg, lambda: ia.iast_point([isos[j] for j in sigma], p[sigma], warningoff=True), False)
            if gp is not None:
                run.count(("relperm", key, tuple(sigma)), nontrivial=sigma != sorted(sigma))
                add({"k": "perm", "a": enc(load), "b": enc(gp), "sigma": [j + 1 for j in sigma]},
                    {"site": "iast_point", "config": cfg + ", permuted order", "components": names, "p": p.tolist()})
        # forward then reverse
        x = load / load.sum()
        if float(numpy.sum(x)) != 1.0:
            x = x.copy()
            x[-1] = 1.0 - float(numpy.sum(x[:-1]))
        if float(numpy.sum(x)) == 1.0 and trial % 3 != 2:
            P = float(p.sum())
            back = attempt("reverse_iast", cfg, lambda: ia.reverse_iast(isos, x, P, gas_mole_fraction_guess=list(p / P) if trial % 2 else None, warningoff=True), False)
            if back is not None:
                y, l2 = back
                run.count(("inverse", key))
                add({"k": "close", "a": enc(p / P), "b": enc(y)}, {"site": "reverse_iast", "config": cfg + ", inverse of iast_point (gas fractions)", "components": names, "p": p.tolist()})
                add({"k": "close", "a": enc(load), "b": enc(l2)}, {"site": "reverse_iast", "config": cfg + ", inverse of iast_point (loadings)", "components": names, "p": p.tolist()})
    # reverse problem on binary fractions, then forward
    xsets = {2: [[0.25, 0.75], [0.5, 0.5], [0.75, 0.25], [0.125, 0.875]],
             3: [[0.5, 0.25, 0.25], [0.25, 0.375, 0.375], [0.125, 0.125, 0.75], [0.125, 0.375, 0.5]],
             4: [[0.25, 0.25, 0.25, 0.25], [0.5, 0.25, 0.125, 0.125], [0.125, 0.375, 0.25, 0.25]]}
    # seeded mixtures, preceded by a fixed family (every model isotherm paired with each TemkinApprox
    # isotherm at x = 1/2) so that every run, whatever the seed, visits the same binaries
    fixed = [([c, t], [0.5, 0.5], P) for c in pool if not c[0].startswith(("points:", "TemkinApprox"))
             for t in pool if t[0].startswith("TemkinApprox") for P in (0.5, 2.0)]
    for trial in range(-len(fixed), ntrials // 2):
        if trial < 0:
            comp, xx, P = fixed[trial]
            n = 2
            x = numpy.array(xx)
        else:
            n = 2 + trial % 3
            comp = rng.sample(pool, n)
            x = numpy.array(rng.choice(xsets[n]))
            rng.shuffle(x)
            P = rng.choice([0.5, 1.0, 2.0, 5.0])
        names = [c[0] for c in comp]
        isos = [c[1] for c in comp]
        cfg = ("point isotherms" if any(v.startswith("points:") for v in names) else "model isotherms") + f", {n} components"
        key = ("relrev", tuple(names), tuple(x.tolist()), P)
        back = attempt("reverse_iast", cfg, lambda: ia.reverse_iast(isos, x, P, warningoff=True), False)
        run.count(key, nontrivial=back is not None)
        if back is None:
            continue
        y, load = (numpy.asarray(v, dtype=float) for v in back)
        if not (numpy.all(numpy.isfinite(load)) and numpy.all(numpy.isfinite(y)) and load.sum() > 0):
            # typically a spurious root at a gas fraction of exactly 0 (p0 = 0): name the component sitting there
            zero = sorted({nm.split("#")[0] for nm, yy in zip(names, y) if not yy > 0})
            run.violation({"site": "reverse_iast", "config": cfg, "observed": "returned values are not finite positive numbers",
                           "component_at_zero_pressure": "+".join(zero) if zero else "none"},
                          {"components": names, "x": x.tolist(), "P": P, "y": y.tolist(), "load": load.tolist()})
            continue
        p = y * P
        try:
            p0, pi, n0, qd = observe(isos, p, load)
        except Exception as e:
            run.violation({"site": "reverse_iast", "config": cfg, "observed": "input isotherms cannot be evaluated at p_i/x_i of the returned result: " + exc_class(e)},
                          {"components": names, "x": x.tolist(), "P": P, "message": str(e)[:200]})
            continue
        add({"k": "revobs", "x": enc(x), "P": dec_enc(P), "y": enc(y), "p": enc(p), "load": enc(load), "p0": enc(p0), "pi": enc(pi), "n0": enc(n0), **qd},
            {"site": "reverse_iast", "config": cfg, "components": names, "x": x.tolist(), "P": P})
        fwd = attempt("iast_point_fraction", cfg, lambda: ia.iast_point_fraction(isos, y, P, warningoff=True), False)
        if fwd is not None:
            run.count(("inverse2", key))
            add({"k": "close", "a": enc(load), "b": enc(fwd)}, {"site": "iast_point_fraction", "config": cfg + ", inverse of reverse_iast", "components": names, "x": x.tolist(), "P": P})

    # ---- trace components: requested adsorbed fractions / gas fractions of 1e-4 and 1e-6
    tr_rational = [rational_iso("langmuir", [2, 1], k) for k in ([1, 2], [3, 1], [1, 1], [3, 1])]
    for ti, (eps, n) in enumerate([(e, k) for e in (1e-4, 1e-6) for k in (2, 3, 4)]):
        mixes = [("equal-capacity Langmuir", tr_rational[:n])]
        for _ in range(3 if thorough else 1):
            comp = rng.sample([c for c in pool if not c[0].startswith("TemkinApprox")], n)
            mixes.append(("+".join(c[0] for c in comp), [c[1] for c in comp]))
        for mname, isos in mixes:
            # the trace component is never put LAST: the solvers eliminate the last fraction (1 - sum of the others), whose
            # relative accuracy is then xtol / fraction (2e-4 at 1e-6) - numerical accuracy the property does not decide
            for pos in (range(n - 1) if thorough else [(ti + seed) % (n - 1)]):
                frac = numpy.full(n, (1.0 - eps) / (n - 1))
                frac[pos] = eps
                frac[(pos + 1) % n] = 1.0 - (float(numpy.sum(frac)) - frac[(pos + 1) % n])
                if float(numpy.sum(frac)) != 1.0:
                    continue
                P = [1.0, 2.0, 5.0][(ti + pos) % 3]
                cfg = f"trace component ({eps:g}), {n} components"
                names = [mname] * n if mname.startswith("equal") else mname.split("+")
                # reverse problem: default guess and a user guess
                res = {}
                for gname, g in (("default guess", None), ("user guess", [1.0 / n] * n)):
                    xa = frac.copy()
                    back = attempt("reverse_iast", cfg, lambda: ia.reverse_iast(isos, xa, P, gas_mole_fraction_guess=g, warningoff=True), False)
                    if not numpy.array_equal(xa, frac):
                        run.add("caller_array_changed_not_judged")
                    run.count(("trace-rev", mname, eps, n, pos, gname), nontrivial=back is not None)
                    if back is None:
                        continue
                    yb, lb = (numpy.asarray(v, dtype=float) for v in back)
                    if not (numpy.all(numpy.isfinite(lb)) and numpy.all(numpy.isfinite(yb)) and lb.sum() > 0 and numpy.all(yb > 0)):
                        continue        # degenerate roots are judged (and listed) in the seeded part
                    res[gname] = numpy.concatenate([yb, lb])
                    try:
                        q0, qi, m0, qd = observe(isos, yb * P, lb)
                    except Exception:
                        continue
                    add({"k": "revobs", "x": enc(frac), "P": dec_enc(P), "y": enc(yb), "p": enc(yb * P), "load": enc(lb), "p0": enc(q0), "pi": enc(qi), "n0": enc(m0), **qd},
                        {"site": "reverse_iast", "config": cfg + ", " + gname, "components": names, "x": frac.tolist(), "P": P})
                    fwd = attempt("iast_point_fraction", cfg, lambda: ia.iast_point_fraction(isos, yb, P, warningoff=True), False)
                    if fwd is not None:
                        add({"k": "close", "a": enc(lb), "b": enc(fwd)}, {"site": "iast_point_fraction", "config": cfg + ", inverse of reverse_iast (" + gname + ")", "components": names, "x": frac.tolist(), "P": P})
                if len(res) == 2:
                    add({"k": "close", "a": enc(res["user guess"]), "b": enc(res["default guess"])},
                        {"site": "reverse_iast", "config": cfg + ", default guess vs user guess", "components": names, "x": frac.tolist(), "P": P})
                # forward problem with a trace gas fraction, and back
                load = attempt("iast_point_fraction", cfg, lambda: ia.iast_point_fraction(isos, frac.copy(), P, warningoff=True), False)
                run.count(("trace-fwd", mname, eps, n, pos), nontrivial=load is not None)
                if load is None:
                    continue
                load = numpy.asarray(load, dtype=float)
                if not (numpy.all(numpy.isfinite(load)) and numpy.all(load > 0)):
                    continue
                try:
                    p0, pi, n0, qd = observe(isos, frac * P, load)
                except Exception:
                    continue
                add({"k": "point", "p": enc(frac * P), "load": enc(load), "p0": enc(p0), "pi": enc(pi), "n0": enc(n0), **qd},
                    {"site": "iast_point_fraction", "config": cfg + ", trace gas fraction", "components": names, "p": (frac * P).tolist()})

    # ================= 4. helpers, default arguments, two-branch point isotherms
    def same(site, cfg, a, b, detail):
        """helper output b must be exactly the point calculation a (TLC on the encodings, float64 bit-for-bit here)"""
        a = [float(v) for v in a]
        b = [float(v) for v in b]
        add({"k": "same", "a": enc(a), "b": enc(b)}, {"site": site, "config": cfg})
        if a != b:
            run.violation({"site": site, "config": cfg, "observed": "helper_differs_from_point_calculation"}, {"point_calculation": a, "helper": b, **detail})

    def helper_call(site, cfg, fn, detail):
        """the point calculations behind this helper call all returned: the helper must return too"""
        try:
            return fn()
        except Exception as e:
            run.violation({"site": site, "config": cfg, "observed": "helper raises although the point calculation returns: " + exc_class(e)},
                          {"message": str(e)[:200], **detail})
            return None

    def refused_by_point(site, cfg, fn, detail):
        """one of the point calculations behind this helper call raises: what the point calculation gives is that
        refusal, so the helper must raise as well - it may not return numbers (or NaN) in its place"""
        try:
            out = fn()
        except Exception:
            run.add("helper_refuses_where_point_calculation_refuses")
            return
        run.violation({"site": site, "config": cfg, "observed": "helper returns a result although the point calculation raises"},
                      {**detail, "returned": {k: [float(v) for v in out[k]] for k in out}})

    def check_helpers(isos, cfg, bkw, beff, ys, plists, vleP, npts, tag):
        for y in ys:
            ya = numpy.asarray(y)
            for pl in plists:
                exp = []
                for P in pl:
                    l = attempt("iast_point", cfg, lambda: ia.iast_point(isos, ya * P, branch=beff, warningoff=True), False)
                    if l is None:
                        exp = None
                        break
                    exp.append((l[0] / ya[0]) / (l[1] / ya[1]))
                run.count(("svp", tag, tuple(y), tuple(pl), tuple(bkw.items())), nontrivial=exp is None or list(pl) != sorted(pl))
                detail = {"pressures": list(pl), "gas_fractions": list(y), "arguments": dict(bkw)}
                if exp is None:
                    refused_by_point("iast_binary_svp", cfg, lambda: ia.iast_binary_svp(isos, y, list(pl), warningoff=True, **bkw), detail)
                    continue
                out = helper_call("iast_binary_svp", cfg, lambda: ia.iast_binary_svp(isos, y, list(pl), warningoff=True, **bkw), detail)
                if out is None:
                    continue
                same("iast_binary_svp", cfg, exp, out["selectivity"], detail)
                same("iast_binary_svp", cfg + " (pressure axis)", pl, list(out["pressure"]), detail)
        for P in vleP:
            ysg = numpy.linspace(0.01, 0.99, npts)
            ex = [0.0]
            for yy in ysg:
                l = attempt("iast_point", cfg, lambda: ia.iast_point(isos, numpy.asarray([yy, 1 - yy]) * P, branch=beff, warningoff=True), False)
                if l is None:
                    ex = None
                    break
                ex.append(l[0] / (l[0] + l[1]))
            run.count(("vle", tag, P, tuple(bkw.items())), nontrivial=True)
            detail = {"total_pressure": P, "npoints": npts, "arguments": dict(bkw)}
            if ex is None:
                refused_by_point("iast_binary_vle", cfg, lambda: ia.iast_binary_vle(isos, P, npoints=npts, warningoff=True, **bkw), detail)
                continue
            ex.append(1.0)
            out = helper_call("iast_binary_vle", cfg, lambda: ia.iast_binary_vle(isos, P, npoints=npts, warningoff=True, **bkw), detail)
            if out is None:
                continue
            same("iast_binary_vle", cfg, ex, list(out["x"]), detail)
            same("iast_binary_vle", cfg + " (gas fraction axis)", [0.0] + list(ysg) + [1.0], list(out["y"]), detail)

    # pressure lists in every arrangement: entry k of the result must belong to entry k of the input
    base_p = [0.5, 1.0, 2.0, 5.0]
    shuffled = base_p[:]
    rng.shuffle(shuffled)
    arrangements = [base_p, base_p[::-1], shuffled if shuffled not in (base_p, base_p[::-1]) else [2.0, 0.5, 5.0, 1.0], [2.0, 0.5, 2.0, 5.0, 0.5]]
    byname = dict(pool)
    binaries = [("langmuir unequal capacity", [byname["Langmuir#0"], byname["Langmuir#1"]]),        # selectivity depends on pressure
                ("toth + langmuir", [byname["Toth#0"], byname["Langmuir#0"]]),
                ("point isotherms", [byname["points:Langmuir"], byname["points:Toth"]]),
                ("langmuir equal capacity", [rational_iso("langmuir", [2, 1], [1, 2]), rational_iso("langmuir", [2, 1], [3, 1])]),
                ("henry", [rational_iso("henry", [1, 1], [1, 2]), rational_iso("henry", [1, 1], [3, 1])])]
    for j in range(10 if thorough else 3):
        pair = rng.sample(pool, 2)
        binaries.append((pair[0][0] + "+" + pair[1][0], [c[1] for c in pair]))
    # point isotherms measured up to 10 bar: at 5 bar total pressure SOME compositions need p_i/x_i beyond the data
    # and the point calculation refuses them (CalculationError); the sweeps must not paper over that
    sgrid = numpy.concatenate([numpy.linspace(0.05, 1, 12), numpy.linspace(1.2, 10, 20)])

    def short(name, k):
        m = get_isotherm_model(name, parameters=dict(PAR[name][k]))
        return pygaps.PointIsotherm(pressure=sgrid, loading=m.loading(sgrid), branch="ads", **BASE)

    for tag, pair in (("short-range points Langmuir+Toth", [short("Langmuir", 1), short("Toth", 0)]),
                      ("short-range points Langmuir+Henry", [short("Langmuir", 1), short("Henry", 0)]),
                      ("short-range points Toth+Langmuir", [short("Toth", 0), short("Langmuir", 1)])):
        check_helpers(pair, "binary helper, point isotherms measured up to 10 bar", {}, "ads", [[0.5, 0.5], [0.25, 0.75]], [[1.0, 5.0], [5.0, 0.5, 2.0]], [5.0, 1.0], 5, tag)
    for bi, (tag, isos) in enumerate(binaries):
        ys = [[0.25, 0.75], [0.5, 0.5], [0.1, 0.9]] if thorough else [[0.25, 0.75], [[0.5, 0.5], [0.1, 0.9]][(bi + seed) % 2]]
        pls = arrangements if thorough else [arrangements[1 + (bi + seed) % 3], arrangements[(bi + seed + 1) % 4]]
        check_helpers(isos, "binary helper", {}, "ads", ys, pls, [1.0, 3.0] if thorough else [1.0 + bi % 2], 7 if thorough else 5, tag)

    # ---- two-branch (hysteresis) point isotherms: default arguments, branch='ads', branch='des'
    hgrid = numpy.concatenate([numpy.linspace(0.05, 1, 12), numpy.linspace(1.5, 400, 60)])

    def hysteresis(name, pa, pd, des_ascending):
        a = get_isotherm_model(name, parameters=dict(pa)).loading(hgrid)
        pdes = hgrid[:-1] if des_ascending else hgrid[::-1][1:]
        d = get_isotherm_model(name, parameters=dict(pd)).loading(pdes)
        return pygaps.PointIsotherm(pressure=numpy.concatenate([hgrid, pdes]), loading=numpy.concatenate([a, d]),
                                    branch=[False] * len(hgrid) + [True] * len(pdes), **BASE)

    hpool = []
    for asc in (True, False):
        t = "stored ascending" if asc else "stored descending"
        hpool.append((f"hysteresis:Langmuir ({t})", hysteresis("Langmuir", {"K": 0.5, "n_m": 2.0}, {"K": 1.0, "n_m": 2.2}, asc), asc))
        hpool.append((f"hysteresis:Toth ({t})", hysteresis("Toth", {"n_m": 5.0, "K": 0.5, "t": 2.0}, {"n_m": 5.0, "K": 1.5, "t": 2.0}, asc), asc))
        hpool.append((f"hysteresis:DSLangmuir ({t})", hysteresis("DSLangmuir", PAR["DSLangmuir"][0], {"n_m1": 1.0, "K1": 1.5, "n_m2": 2.0, "K2": 9.0}, asc), asc))
    hmix = []
    for asc in (True, False):
        grp = [h for h in hpool if h[2] == asc]
        hmix += [[grp[0], grp[1]], [grp[1], grp[2]], [grp[0], grp[1], grp[2]], [grp[2], grp[0]]]
    mixed = [[hpool[0], ("Langmuir#1", byname["Langmuir#1"], None)], [("Toth#1", byname["Toth#1"], None), hpool[4], hpool[3]]]
    for mi, comp in enumerate(hmix + mixed):
        names = [c[0] for c in comp]
        isos = [c[1] for c in comp]
        n = len(isos)
        has_model = any(c[2] is None for c in comp)
        stored = {c[2] for c in comp if c[2] is not None}
        cfg = "two-branch point isotherms (desorption points stored " + ("ascending" if stored == {True} else "descending" if stored == {False} else "either way") + f"), {n} components"
        variants = [({}, "ads"), ({"branch": "ads"}, "ads")] + ([] if has_model else [({"branch": "des"}, "des")])
        pts = [[1.0, 2.0, 0.5][:n], [0.2, 0.1, 3.0][:n]] + ([[5.0, 0.5, 1.0][:n]] if thorough else [])
        results = {}
        for bkw, beff in variants:
            vt = "default arguments" if not bkw else "branch=" + bkw["branch"]
            for p in pts:
                p = numpy.array(p)
                P = float(p.sum())
                y = p / P
                load = attempt("iast_point", cfg, lambda: ia.iast_point(isos, p, warningoff=True, **bkw), False)
                run.count(("hyst", mi, vt, tuple(p.tolist())), nontrivial=load is not None)
                if load is None:
                    continue
                load = numpy.asarray(load, dtype=float)
                results[(vt, tuple(p.tolist()))] = load
                if not (numpy.all(numpy.isfinite(load)) and load.sum() > 0):
                    run.violation({"site": "iast_point", "config": cfg + ", " + vt, "observed": "returned loadings are not finite positive numbers"},
                                  {"components": names, "p": p.tolist(), "returned": load.tolist()})
                    continue
                try:
                    p0, pi, n0, qd = observe(isos, p, load, branch=beff)
                except Exception as e:
                    run.violation({"site": "iast_point", "config": cfg + ", " + vt,
                                   "observed": "input isotherms cannot be evaluated on the requested branch at p_i/x_i of the returned result: " + exc_class(e)},
                                  {"components": names, "p": p.tolist(), "returned": load.tolist(), "message": str(e)[:200]})
                    continue
                add({"k": "point", "p": enc(p), "load": enc(load), "p0": enc(p0), "pi": enc(pi), "n0": enc(n0), **qd},
                    {"site": "iast_point", "config": cfg + ", " + vt, "components": names, "p": p.tolist()})
                # the fraction helper with the same arguments = the point calculation on that branch
                detail = {"components": names, "gas_fractions": y.tolist(), "total_pressure": P, "arguments": dict(bkw)}
                direct = attempt("iast_point", cfg, lambda: ia.iast_point(isos, numpy.asarray(y) * P, branch=beff, warningoff=True), False)
                if direct is not None:
                    viaf = helper_call("iast_point_fraction", cfg + ", " + vt, lambda: ia.iast_point_fraction(isos, y, P, warningoff=True, **bkw), detail)
                    if viaf is not None:
                        run.count(("hyst-fraction", mi, vt, tuple(p.tolist())))
                        same("iast_point_fraction", cfg + ", " + vt, direct, viaf, detail)
                # reverse problem with the same arguments
                x = load / load.sum()
                if float(numpy.sum(x)) != 1.0:
                    x = x.copy()
                    x[-1] = 1.0 - float(numpy.sum(x[:-1]))
                if float(numpy.sum(x)) == 1.0:
                    back = attempt("reverse_iast", cfg, lambda: ia.reverse_iast(isos, x, P, warningoff=True, **bkw), False)
                    if back is not None:
                        yb, lb = (numpy.asarray(v, dtype=float) for v in back)
                        run.count(("hyst-reverse", mi, vt, tuple(p.tolist())))
                        if numpy.all(numpy.isfinite(lb)) and lb.sum() > 0 and numpy.all(numpy.isfinite(yb)):
                            try:
                                q0, qi, m0, qd = observe(isos, yb * P, lb, branch=beff)
                                add({"k": "revobs", "x": enc(x), "P": dec_enc(P), "y": enc(yb), "p": enc(yb * P), "load": enc(lb), "p0": enc(q0), "pi": enc(qi), "n0": enc(m0), **qd},
                                    {"site": "reverse_iast", "config": cfg + ", " + vt, "components": names, "x": x.tolist(), "P": P})
                            except Exception as e:
                                run.violation({"site": "reverse_iast", "config": cfg + ", " + vt,
                                               "observed": "input isotherms cannot be evaluated on the requested branch at p_i/x_i of the returned result: " + exc_class(e)},
                                              {"components": names, "x": x.tolist(), "P": P})
                        results[("rev", vt, tuple(p.tolist()))] = numpy.concatenate([yb, lb])
        # default arguments mean the adsorption branch
        for key, val in list(results.items()):
            if key[0] == "default arguments" or (key[0] == "rev" and key[1] == "default arguments"):
                twin = ("branch=ads",) + key[1:] if key[0] != "rev" else ("rev", "branch=ads") + key[2:]
                if twin in results:
                    same("reverse_iast" if key[0] == "rev" else "iast_point", cfg + ", default arguments vs branch=ads", results[twin], val, {"components": names})
        if n == 2:
            for bkw, beff in variants:
                vt = "default arguments" if not bkw else "branch=" + bkw["branch"]
                check_helpers(isos, cfg + ", " + vt, bkw, beff, [[0.25, 0.75]], [arrangements[1], arrangements[2]] if thorough else [arrangements[1 + (mi + seed) % 2]],
                              [2.0], 5, ("hyst", mi))

    # ================= judge
    answers = tlc.oracle("IastOracle", judge_recs, timeout=900, chunk=5000) if judge_recs else []
    for rec, meta, a in zip(judge_recs, judge_meta, answers):
        if not a["ok"]:
            cls = meta["config"]
            extra = {}
            if a["clause"] == "spreading_pressure_is_not_the_integral_of_loading":
                extra = {"component": "+".join(sorted({meta["components"][i - 1].split("#")[0] for i in a["bad"]}))}
            run.violation({"site": meta["site"], "config": cls, "observed": a["clause"], **extra},
                          {k: v for k, v in meta.items() if k not in ("site", "config")} | {"record": {k: rec[k] for k in rec if k != "k"}})
    run.add("traces_validated_against_impl", len(judge_recs))
    kinds = {}
    for r in judge_recs:
        kinds[r["k"]] = kinds.get(r["k"], 0) + 1
    run.set(judged_observations=kinds, not_judged_no_result=counters["no_result"], not_judged_crash=counters["crash"])
    if counters["crash"]:
        run.note("not judged (the property is conditional on 'returns'): non-pyGAPS exceptions raised by IAST calls: " + str(counters["crash"]))
    for r, m in list(zip(judge_recs, judge_meta))[:1] + [x for x in zip(judge_recs, judge_meta) if x[0]["k"] == "point"][:2] + [x for x in zip(judge_recs, judge_meta) if x[0]["k"] == "revobs"][:1]:
        run.sample({"observation": r["k"], **{k: v for k, v in m.items()}, "record": {k: r[k] for k in r if k != "k"}})
    if nrows == 0 or kinds.get("point", 0) < 20:
        raise MachineryError("vacuous run: too few IAST calculations returned a result to be judged")
    run.set(exhaustive=False, rational_grid_complete=bool(thorough),
            rule="rational part: every " + "/".join(f"{s}-th" if s > 1 else "one" for _, s in plan) + " grid point of spec/Iast (Henry and equal-capacity Langmuir, 2/3/4 components, "
                 "K in {1/2,1,3}, p in {1,2,5}, all orders; reverse problem on binary fractions summing to 1) replayed into iast_point / reverse_iast / iast_point_fraction; "
                 "relational part: seeded mixtures of 2-4 components drawn from 16 model isotherms (8 IAST-capable models) and 4 point isotherms, partial pressures in {0.1..5}, "
                 "default and 3 user starting guesses, permuted orders, forward->reverse and reverse->forward; helpers on binary mixtures; "
                 "non-trivial: components or pressures differ / the call returned a result; distinct = distinct (kind, mixture, pressures, guess)")
    run.assume("the input isotherms' own spreading_pressure_at / loading_at are observations (their correctness is C10/C11)")
    run.assume("trace components (1e-4, 1e-6) are placed in every position but the last: the solvers eliminate the last mole fraction, whose relative accuracy degrades as xtol / fraction")
    run.assume("BET is excluded: its spreading pressure is not defined for all p > 0 (property quantifier)")
    run.assume("calls that raise are 'no result' and are not judged; for the rational families any exception other than CalculationError is reported")
    return run.finish()
