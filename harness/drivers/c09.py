"""C09 - database operations are atomic under statement failures and process death.

1. Every public write operation x prior content class is run on a real database file with the name
   `sqlite3` inside pygaps.parsing.sqlite replaced by a logging proxy (no change to the repository):
   the fault-free statement log gives the operation's SHAPE (K statements, which are writes, where the
   session registries change).
2. TLC model-checks spec/StoreTxMC on exactly those shapes: every statement position x every fault kind x
   a crash at every instant incl. inside the commit.  Mode "required" must satisfy the clauses of C09;
   mode "implemented" lists what the code's discipline is predicted to break.
3. Fault enumeration on the real code: statement k rejected with IntegrityError / InterfaceError /
   OperationalError, a Python exception after statement k, and (forked child, os._exit) the process
   killed before / after statement k and just before / after the commit.  After every run the file is read
   through an independent connection, the *_from_db functions are called, and the same operation is
   repeated without fault.  spec/StoreTxOracle (TLC) judges every record with the clauses of the property;
   spec/StoreTxTrace (TLC trace validation) checks every statement log against the connection discipline.
"""
import json
import os
import re
import shutil

from ..common import Run, MachineryError, quiet_pygaps
from .. import tlc
from .. import store_common as sc

PID = "C09"
KINDS = ["IntegrityError", "InterfaceError", "OperationalError", "PythonError"]
o = sc.op


NOISE = [
    [o("mat_to", "d1", "M2", "m1", ai=True), o("ads_to", "d1", "A2", "a1", ai=True)],
    [o("iso_to", "d1", "I4", am=True, aa=True), o("ity_to", "d1", "tm", "t2", ow=True)],
    [o("iso_to", "d1", "I2", am=True, aa=True), o("iso_to", "d2", "I3", am=True, aa=True)],
    [o("ads_to", "d1", "A2", "a0"), o("iso_to", "d2", "I1", am=True, aa=True), o("mat_to", "d1", "M2", "m0")],
]


def scenarios(thorough, seed=0):
    S = []

    def add(name, prior, setup, target, touches_ads=False, swallow=(), crash_quick=False, crash_only=False):
        variant = ""
        for cls in ("empty", "item_present", "item_referenced", "types_present", "items_present"):
            if prior.startswith(cls + "_"):
                prior, variant = cls, prior[len(cls) + 1:]
        S.append({"name": name, "prior": prior, "variant": variant, "setup": setup, "op": target, "touches_ads": touches_ads,
                  "swallow": list(swallow), "crash_quick": crash_quick, "crash_only": crash_only})

    both = dict(am=True, aa=True)
    # adsorbates
    add("adsorbate_to_db", "empty", [], o("ads_to", "d1", "A1", "a1", ai=True), True)
    add("adsorbate_to_db", "types_present", [o("apt_to", "d1", "pa", "t1")], o("ads_to", "d1", "A1", "a1"), True)
    add("adsorbate_to_db", "item_present", [o("ads_to", "d1", "A1", "a0")], o("ads_to", "d1", "A1", "a1", ai=True), True)
    add("adsorbate_to_db:overwrite", "item_present", [o("ads_to", "d1", "A1", "a1", ai=True)], o("ads_to", "d1", "A1", "a0", ow=True, ai=True), True, (3, 4))
    add("adsorbate_to_db:overwrite", "item_referenced", [o("iso_to", "d1", "I1", **both)], o("ads_to", "d1", "A1", "a1", ow=True, ai=True), True, (3, 4))
    add("adsorbate_delete_db", "item_present", [o("ads_to", "d1", "A1", "a1", ai=True)], o("ads_del", "d1", "A1", by="name"), True)
    add("adsorbate_delete_db", "item_referenced", [o("iso_to", "d1", "I1", **both)], o("ads_del", "d1", "A1", by="obj"), True)
    # materials
    add("material_to_db", "empty", [], o("mat_to", "d1", "M1", "m1", ai=True))
    add("material_to_db", "types_present", [o("mpt_to", "d1", "pm", "t1")], o("mat_to", "d1", "M1", "m1"))
    add("material_to_db", "item_present", [o("mat_to", "d1", "M1", "m0")], o("mat_to", "d1", "M1", "m1", ai=True))
    add("material_to_db:overwrite", "item_present", [o("mat_to", "d1", "M1", "m1", ai=True)], o("mat_to", "d1", "M1", "m0", ow=True, ai=True), False, (3, 4))
    add("material_to_db:overwrite", "item_present_no_properties", [o("mat_to", "d1", "M1", "m0")], o("mat_to", "d1", "M1", "m1", ow=True, ai=True), False, (3,))
    add("material_to_db:overwrite", "item_referenced", [o("iso_to", "d1", "I1", **both)], o("mat_to", "d1", "M1", "m1", ow=True, ai=True), False, (3, 4))
    add("material_delete_db", "item_present", [o("mat_to", "d1", "M1", "m1", ai=True)], o("mat_del", "d1", "M1", by="obj"))
    add("material_delete_db", "item_referenced", [o("iso_to", "d1", "I1", **both)], o("mat_del", "d1", "M1", by="name"))
    # property / isotherm types
    for kind, key in (("apt", "pa"), ("mpt", "pm"), ("ity", "tm")):
        site = sc.SITE[kind + "_to"]
        pre = [] if kind != "ity" else [o("ity_del", "d1", "tm", by="name")]
        add(site, "empty", pre, o(kind + "_to", "d1", key, "t1"))
        add(site + ":overwrite", "item_present", pre + [o(kind + "_to", "d1", key, "t1")], o(kind + "_to", "d1", key, "t2", ow=True))
        add(sc.SITE[kind + "_del"], "item_present", pre + [o(kind + "_to", "d1", key, "t1")], o(kind + "_del", "d1", key, by="name"))
    add("adsorbate_property_type_delete_db", "item_referenced", [o("ads_to", "d1", "A1", "a1", ai=True)], o("apt_del", "d1", "pa", by="name"), True)
    add("isotherm_type_delete_db", "item_referenced", [o("iso_to", "d1", "I1", **both)], o("ity_del", "d1", "tp", by="name"))
    # isotherms
    add("isotherm_to_db:autoinsert", "empty", [], o("iso_to", "d1", "I1", **both), True, (), True)
    add("isotherm_to_db:autoinsert", "empty_model_isotherm", [], o("iso_to", "d1", "I3", **both), True, (), True)
    add("isotherm_to_db:autoinsert", "empty_base_isotherm", [], o("iso_to", "d1", "I4", **both), True)
    add("isotherm_to_db:autoinsert", "adsorbate_present", [o("ads_to", "d1", "A1", "a0")], o("iso_to", "d1", "I1", **both), True)
    add("isotherm_to_db", "items_present", [o("mat_to", "d1", "M1", "m1", ai=True), o("ads_to", "d1", "A1", "a0")], o("iso_to", "d1", "I1"), False, (), True)
    add("isotherm_to_db", "other_isotherm_present", [o("iso_to", "d1", "I3", **both), o("ads_to", "d1", "A1", "a0")], o("iso_to", "d1", "I1", **both))
    add("isotherm_to_db", "item_present", [o("iso_to", "d1", "I1", **both)], o("iso_to", "d1", "I1", **both))
    add("isotherm_delete_db", "item_present", [o("iso_to", "d1", "I1", **both)], o("iso_del", "d1", "I1", by="id"), False, (), True)
    add("isotherm_delete_db", "item_present_model_isotherm", [o("iso_to", "d1", "I3", **both), o("iso_to", "d1", "I1", **both)], o("iso_del", "d1", "I3", by="obj"))
    # a write transaction larger than the page cache: only crash points (each run moves ~6 MB)
    if LARGE in sc.ISOS:
        add("isotherm_to_db:autoinsert", "empty_transaction_larger_than_page_cache", [], o("iso_to", "d1", LARGE, **both), False, (), True, True)
    if thorough:
        # "arbitrary prior content": the same scenarios on a file (and a session) that already hold unrelated items
        noise = NOISE[seed % len(NOISE)]
        keys = {(x["op"][:3], x["k"]) for x in noise}
        for sc_ in list(S):
            if sc_["crash_only"]:
                continue
            mine = {(x["op"][:3], x["k"]) for x in sc_["setup"] + [sc_["op"]]}
            uses_iso = [x["k"] for x in sc_["setup"] + [sc_["op"]] if x["op"].startswith("iso")]
            refs = set()
            for i in uses_iso:
                refs |= {("mat", sc.ISOS[i][1]), ("ads", sc.ISOS[i][3])}
            if (mine | refs) & keys or any(x["op"] == "ity_to" for x in noise) and any(k[0] == "ity" for k in mine):
                continue
            S.append(dict(sc_, variant=(sc_["variant"] + "+" if sc_["variant"] else "") + "unrelated_content", setup=noise + sc_["setup"]))
        add("isotherm_to_db:autoinsert", "empty_large_isotherm", [], o("iso_to", "d1", "I8", **both), True)
        add("isotherm_delete_db", "item_present_large_isotherm", [o("iso_to", "d1", "I8", **both)], o("iso_del", "d1", "I8", by="obj"))
    return S


LARGE = "I9"


def add_cache_exceeding_isotherm():
    """One transaction larger than SQLite's page cache (default 2 MB): 80 000 points x 4 float columns are about
    6 MB of JSON; measured: from about 40 000 points on pages of the open transaction are written into the database
    file before the commit (protected only by the rollback journal)."""
    sc.ISOS[LARGE] = ("point", "M2", "m0", "A2", "a0", "tp", "plain")
    sc.ISO_META[LARGE] = {"vkey": LARGE}
    sc.EXTRA_COLUMNS[LARGE] = ["colA", "colB"]
    sc.LARGE_POINTS[LARGE] = 80000


def add_large_isotherm():
    """K of about 40: 20 metadata keys, 3 extra data columns (bound named in the design)."""
    sc.ISOS["I8"] = ("point", "M2", "m0", "A2", "a0", "tp", "plain")
    meta = {"vkey": "I8"}
    for i in range(19):
        meta["meta_%02d" % i] = ("text %d" % i) if i % 2 else i + 0.5
    sc.ISO_META["I8"] = meta
    sc.EXTRA_COLUMNS["I8"] = ["colA", "colB"]


class Harness:
    def __init__(self, scratch):
        self.sess = sc.Session(sc.db_scratch(scratch, "db"), deep=True)
        self.log = []
        self.plan = [None]
        self.exit_file = os.path.join(self.sess.dir, "child.log.json")
        pg = self.sess.pygaps

        def probe():
            return [len(pg.MATERIAL_LIST), len(pg.ADSORBATE_LIST)]

        def die(code):
            try:
                with open(self.exit_file, "w") as f:
                    json.dump(self.log, f)
            finally:
                os._exit(code)

        self.real_name = self.sess.ps.sqlite3
        self.sess.ps.sqlite3 = sc.make_proxy(self.log, self.plan, exit_fn=die, probe=probe)
        if self.sess.ps.sqlite3.IntegrityError is not self.real_name.IntegrityError:
            raise MachineryError("sqlite3 proxy does not forward attributes")

    def close(self):
        self.sess.ps.sqlite3 = self.real_name
        self.sess.close()

    # ---- one scenario
    def prepare(self, sc_):
        """Returns True, or the record of the set-up step that was not accepted (judged later by StoreOracle)."""
        s = self.sess
        s.fresh()
        for op_ in sc_["setup"]:
            pre = {d: sc.spec_file(f) for d, f in s.project_all().items()}
            reg = s.registry()
            r = sc.execute(s, op_)
            if r["out"] != "ok":
                post = {d: sc.spec_file(f) for d, f in s.project_all().items()}
                return {"rec": {"pre": pre, "reg": reg, "op": op_, "out": r["out"], "post": post, "ret": {}, "regpost": s.registry()},
                        "exc": r["exc"], "msg": r["msg"]}
        self.snap = {d: p + ".pre" for d, p in s.paths.items()}
        for d, p in s.paths.items():
            shutil.copyfile(p, self.snap[d])
        self.snap_reg = (list(s.pygaps.MATERIAL_LIST), list(s.pygaps.ADSORBATE_LIST))
        self.pre_digest = {d: sc._file_digest(p) for d, p in s.paths.items()}
        return True

    def restore(self, new_session=False):
        s = self.sess
        for d, p in s.paths.items():
            sc._rm(p)
            shutil.copyfile(self.snap[d], p)
        s._cache = {}
        if new_session:
            s.new_session()
        else:
            s.pygaps.MATERIAL_LIST[:] = self.snap_reg[0]
            s.pygaps.ADSORBATE_LIST[:] = self.snap_reg[1]
            s.isos = {k: s.build(k) for k in s.isos}

    def retrievals(self, sc_):
        out = {}
        names = ["mats_from", "iso_from", "apt_from", "mpt_from", "ity_from"] + (["ads_from"] if sc_["touches_ads"] else [])
        for n in names:
            r = sc.execute(self.sess, o(n, "d1"))
            out[n] = r["ret"] if r["out"] == "ok" else {"#failed": r["exc"]}
        return out

    def call(self, op_, plan=None):
        del self.log[:]
        self.plan[0] = plan
        try:
            r = sc.execute(self.sess, op_)
        finally:
            self.plan[0] = None
        return r, [dict(e) for e in self.log]

    def crash_call(self, op_, plan):
        """Run the call in a forked child that dies at the crash point."""
        try:
            os.unlink(self.exit_file)
        except OSError:
            pass
        pid = os.fork()
        if pid == 0:
            code = 0
            try:
                del self.log[:]
                self.plan[0] = plan
                sc.execute(self.sess, op_)
            except BaseException:
                code = 3
            finally:
                os._exit(code)
        _, status = os.waitpid(pid, 0)
        code = os.waitstatus_to_exitcode(status)
        log = []
        if os.path.exists(self.exit_file):
            with open(self.exit_file) as f:
                log = json.load(f)
        return code, log


def fault_class(kind):
    if kind in ("IntegrityError", "InterfaceError"):
        return "database error handled by with_connection"
    if kind == "OperationalError":
        return "database error not handled by with_connection"
    if kind == "PythonError":
        return "python exception between statements"
    return "process death"


def shape_of(sc_, log, K, reg_init):
    writes = [e["k"] for e in log if e["e"] == "exec" and e["sql"] == "write"]
    reg_at = []
    prev = None
    for e in log:
        if prev is not None and e.get("reg") != prev.get("reg") and prev["k"] >= 1:
            reg_at.append(prev["k"])
        prev = e
    kind = sc_["op"]["op"]
    return {"name": sc_["name"] + "/" + sc_["prior"] + ("/" + sc_["variant"] if sc_["variant"] else ""), "K": K, "writes": writes,
            "swallow": [k for k in sc_["swallow"] if k <= K], "regAt": sorted(set(reg_at)),
            "regInit": bool(reg_init), "regSet": not kind.endswith("_del"),
            "itemWhen": "pre" if kind.endswith("_del") else ("always" if sc_["op"]["ow"] else "post"),
            "auto": kind == "iso_to" and (sc_["op"]["am"] or sc_["op"]["aa"])}


def multi(pattern, text):
    return re.findall(pattern, text, re.S)


def main(tier, seed):
    quiet_pygaps()
    run = Run(PID, tier, seed, "model_checking")
    thorough = tier == "thorough"
    scratch = tlc.scratch("c09-")
    add_cache_exceeding_isotherm()
    if thorough:
        add_large_isotherm()
    try:
        H = Harness(scratch)
        try:
            records, traces, shapes, meta, setup_failures = enumerate_faults(run, H, scenarios(thorough, seed), thorough, seed)
        finally:
            H.close()
        # ---- 2. design-level exploration on the real shapes
        sfile = os.path.join(scratch, "shapes.json")
        with open(sfile, "w") as f:
            json.dump(shapes, f)
        rq = tlc.must_pass("StoreTxMC", cfg="StoreTxMC_required", env={"SHAPES_IN": sfile}, timeout=600, workers=4)
        # the implemented mode runs with the journal where the recorded pragmas put it
        weak = [e for t in traces for e in t["ev"] if e["e"] == "exec" and e["pname"] == "journal_mode" and e["pval"] in ("memory", "off")]
        journal = "memory" if weak else "disk"
        with open(os.path.join(tlc.SPEC, "StoreTxMC_implemented.cfg")) as f:
            text = f.read()
        if 'Journal = "disk"' not in text:
            raise MachineryError("StoreTxMC_implemented.cfg does not assign Journal")
        icfg = os.path.join(scratch, "StoreTxMC_implemented.cfg")
        with open(icfg, "w") as f:
            f.write(text.replace('Journal = "disk"', 'Journal = "%s"' % journal))
        ri = tlc.check("StoreTxMC", cfg=icfg, env={"SHAPES_IN": sfile}, timeout=600, workers=1)
        if not ri["ok"]:
            raise MachineryError("StoreTxMC (implemented mode) failed:\n" + "\n".join(ri["out"].splitlines()[-30:]))
        predicted = {}
        for name, verdict, k, kind in multi(r'<<\s*"PREDICT",\s*"([^"]*)",\s*"([^"]*)",\s*(\d+),\s*"([^"]*)"\s*>>', ri["out"]):
            if verdict != "fine":
                predicted.setdefault(name, set()).add(verdict)
        fin = multi(r'<<\s*"FINISHED-BEHAVIOURS",\s*(\d+),\s*"NOT-FINE",\s*(\d+)\s*>>', ri["out"])
        if rq["distinct"] < 50 * len(shapes) / 10 or not fin:
            raise MachineryError("StoreTxMC explored suspiciously little")
        run.set(states=rq["distinct"] + ri["distinct"], transitions=rq["states_generated"] + ri["states_generated"],
                tlc_runs={"required": {"states": rq["distinct"], "transitions": rq["states_generated"], "depth": rq["depth"]},
                          "implemented": {"states": ri["distinct"], "transitions": ri["states_generated"],
                                          "finished_behaviours": int(fin[0][0]), "not_fine": int(fin[0][1]),
                                          "predicted": {k: sorted(v) for k, v in sorted(predicted.items())}}},
                shapes=len(shapes), journal_mode_seen=journal, tlc_invariants=["AtomicAlways", "OutcomeMatches", "Repeatable", "RegistryAgrees", "NoCommitAfterFault"])

        # ---- 3a. trace validation of every statement log
        # self-check of the binding: corrupted copies of a real fault-free log must be rejected
        good = next(t for t in traces if t["outcome"] == "ok" and meta[t["id"]]["kind"] == "none")
        corrupt = {
            "selfcheck-dropped-commit": [e for e in good["ev"] if e["e"] != "commit"],
            "selfcheck-second-connection": good["ev"][:2] + [dict(good["ev"][0])] + good["ev"][2:],
            "selfcheck-early-commit": good["ev"][:2] + [e for e in good["ev"] if e["e"] == "commit"] + [e for e in good["ev"][2:] if e["e"] != "commit"],
            "selfcheck-dropped-statement": good["ev"][:2] + good["ev"][3:],
        }
        extra = [{"id": i, "K": good["K"], "outcome": "ok", "ev": ev} for i, ev in corrupt.items()]
        tres = validate_traces(traces + extra, scratch)
        for x in extra:
            if tres.get(x["id"], ("accepted",))[0] != "rejected":
                raise MachineryError(f"StoreTxTrace accepted the corrupted trace {x['id']}: the trace validation is not bound")
        ntr_ok = 0
        for tr in traces:
            v = tres.get(tr["id"])
            if v is None:
                raise MachineryError(f"trace {tr['id']} got no verdict from StoreTxTrace")
            if v[0] == "accepted":
                ntr_ok += 1
                continue
            m = meta[tr["id"]]
            pred = predicted.get(m["shape"], set())
            if v[2].startswith("durability_assumption"):
                run.violation({"site": "with_connection", "clause": "durability_assumption", "observed": v[2],
                               "impl_predicts": "yes" if journal != "disk" else "no"}, {"trace": tr, "position": v[1], "scenario": m})
                continue
            run.violation({"site": m["site"], "clause": "connection_discipline", "fault": fault_class(m["kind"]),
                           "observed": v[2], "impl_predicts": "yes" if ("success_after_failed_statement" in pred or
                                                                       "not_atomic:partial_effect_committed" in pred) else "no"},
                          {"trace": tr, "position": v[1], "scenario": m})
        run.add("traces_validated_against_impl", len(traces))
        run.set(traces_accepted=ntr_ok)

        # ---- 3b. the clauses of the property on every fault record
        ufile = os.path.join(scratch, "universe.json")
        with open(ufile, "w") as f:
            json.dump(sc.universe_json(), f)
        # a set-up step that was not accepted: a violation if the dictionary model allows it (judged by StoreOracle);
        # if the model refuses it too it is the "unrelated content" variant that does not fit this scenario
        if setup_failures:
            sans = tlc.oracle("StoreOracle", [x["rec"] for x in setup_failures], env={"U_IN": ufile}, timeout=600)
            for x, a in zip(setup_failures, sans):
                if a["ok"]:
                    if not x["scenario"]["variant"].endswith("unrelated_content"):
                        raise MachineryError(f"set-up step {x['rec']['op']['op']} of scenario {x['scenario']} is refused by the model as well")
                    run.add("unrelated_content_variant_not_applicable")
                    continue
                run.violation({"site": sc.SITE[x["rec"]["op"]["op"]], "clause": "setup: refused although allowed",
                               "observed": x["rec"]["out"] + (":" + x["exc"] if x["rec"]["out"] == "error" else ""),
                               "spec_clause": a["clause"]},
                              {"scenario": x["scenario"], "record": x["rec"], "message": x["msg"], "answer": a})
        answers = tlc.oracle("StoreTxOracle", [r for r, _ in records], env={"U_IN": ufile}, timeout=1200, chunk=3000)
        nsample = 0
        for (rec, m), ans in zip(records, answers):
            key = (m["site"], m["prior"], m["variant"], m["k"], m["kind"])
            run.count(key, nontrivial=m["kind"] != "none")
            run.add("durable_" + ans["durable_is"].replace("=", "_"))
            if nsample < 4 and m["kind"] in ("OperationalError", "exit_after") and m["k"] == max(2, m["K"] // 2):
                nsample += 1
                run.sample({"scenario": m, "outcome": rec["out"], "durable_is": ans["durable_is"], "repeat": rec["rep_out"],
                            "facts": rec["facts"], "statement_log": m.get("log_excerpt")})
            if ans["ok"]:
                continue
            if not ans["base_conforms"]:
                run.add("not_judged_fault_free_call_already_leaves_Store_Spec")
                continue
            pred = predicted.get(m["shape"], set())
            want = {"atomic": {"not_atomic:partial_effect_committed", "not_atomic:spilled_pages_stay_after_process_death"},
                    "nothing_half_present": {"not_atomic:partial_effect_committed", "not_atomic:spilled_pages_stay_after_process_death"},
                    "outcome_matches_effect": {"not_atomic:partial_effect_committed", "success_after_failed_statement"},
                    "repeatable": {"not_repeatable:registry_keeps_item_the_database_rolled_back"}}.get(ans["clause"], set())
            run.violation({"site": m["site"], "prior": m["prior"], "clause": ans["clause"], "fault": fault_class(m["kind"]),
                           "call_outcome": rec["out"], "file_holds": ans["durable_is"], "repeat_outcome": rec["rep_out"],
                           "impl_predicts": "yes" if want & pred else "no"},
                          {"scenario": m, "record": rec, "answer": ans})
        run.set(fault_runs=len(records), exhaustive=True,
                rule="every public write operation x prior content class (empty / item present / item referenced) x every statement "
                     "position k of its fault-free log x {IntegrityError, InterfaceError, OperationalError at statement k, Python exception after "
                     "statement k}; crash points (forked child, os._exit before/after statement k, before/after commit) for "
                     + ("every scenario" if thorough else "isotherm upload / deletion scenarios") +
                     "; distinct = (operation, prior content, k, fault kind); non-trivial = a fault was actually injected")
    finally:
        shutil.rmtree(scratch, ignore_errors=True)
        for tab in (sc.ISOS, sc.ISO_META, sc.EXTRA_COLUMNS, sc.LARGE_POINTS):
            tab.pop(LARGE, None)
        if thorough:
            sc.ISOS.pop("I8", None)
            sc.ISO_META.pop("I8", None)
            sc.EXTRA_COLUMNS.pop("I8", None)
    run.assume("a statement fault means: the statement is not executed and the sqlite3 exception is raised from cursor.execute")
    run.assume("process death = os._exit in a forked child (no power loss: the operating system keeps what was written)")
    run.assume("a crash INSIDE the commit is explored only in the TLA+ model (rollback-journal semantics), not on the real file")
    return run.finish()


def validate_traces(traces, scratch):
    """One TLC run of StoreTxTrace over all traces; returns id -> (verdict, position, reason)."""
    out = {}
    for i in range(0, len(traces), 4000):
        chunk = traces[i:i + 4000]
        f = os.path.join(scratch, "traces-%d.json" % i)
        with open(f, "w") as fh:
            json.dump(chunk, fh)
        res = tlc.check("StoreTxTrace", cfg="StoreTxTrace", env={"X_IN": f}, workers=1, timeout=900)
        if not res["ok"]:
            raise MachineryError("StoreTxTrace failed:\n" + "\n".join(res["out"].splitlines()[-30:]))
        for tid, verdict, pos, why in multi(r'<<\s*"VERDICT",\s*"([^"]*)",\s*"([^"]*)",\s*(\d+),\s*"([^"]*)"\s*>>', res["out"]):
            out[tid] = (verdict, int(pos), why)
    return out


def enumerate_faults(run, H, scen, thorough, seed):
    records, traces, shapes, meta = [], [], [], {}
    setup_failures = []
    sess = H.sess
    tid = [0]

    def trace(log, K, outcome, m):
        tid[0] += 1
        i = "t%d" % tid[0]
        traces.append({"id": i, "K": K, "outcome": outcome, "ev": [{k: e.get(k, "") for k in ("e", "c", "k", "sql", "pname", "pval", "fault")} for e in log]})
        meta[i] = m
        return i

    for sc_ in scen:
        site, prior, op_ = sc_["name"], sc_["prior"], sc_["op"]
        prep = H.prepare(sc_)
        if prep is not True:
            prep["scenario"] = {"site": site, "prior": prior, "variant": sc_["variant"]}
            setup_failures.append(prep)
            continue
        pre = sc.spec_file(sess.project("d1"))
        retr_pre = H.retrievals(sc_)
        regs = sess.registry()
        item = sc.ISOS[op_["k"]][1] if op_["op"] == "iso_to" else op_["k"]
        reg_init = regs["mats"].get(item, 0) or regs["ads"].get(item, 0)
        r0, log0 = H.call(op_)
        K = max([e["k"] for e in log0 if e["e"] == "exec"] or [0])
        if K < 2:
            raise MachineryError(f"interposition not effective: scenario {site}/{prior} logged {K} statements")
        complete = sc.spec_file(sess.project("d1"))
        shape = shape_of(sc_, log0, K, reg_init)
        shapes.append(shape)
        base = {"site": site, "prior": prior, "variant": sc_["variant"], "shape": shape["name"], "K": K, "op": [op_["op"], op_["k"], op_["v"]]}
        trace(log0, K, r0["out"], dict(base, k=0, kind="none"))
        run.count((site, prior, 0, "none"), nontrivial=False)

        def record(out, m, new_session):
            fd = sess.project("d1")
            durable = sc.spec_file(fd)
            others = all(sc._file_digest(sess.paths[d]) == H.pre_digest[d] for d in sess.paths if d != "d1")
            retr = H.retrievals(sc_)
            rep, _ = H.call(op_)
            rep_post = sc.spec_file(sess.project("d1"))
            records.append(({"op": op_, "pre": pre, "complete": complete, "out0": r0["out"], "out": out, "durable": durable,
                             "others_same": others, "facts": {k: v for k, v in fd["_facts"].items() if k != "n_rest"},
                             "retr_pre": retr_pre, "retr": retr, "rep_out": rep["out"], "rep_post": rep_post}, m))

        for k in range(1, K + 1 if not sc_["crash_only"] else 0):
            for kind in KINDS:
                H.restore()
                r, log = H.call(op_, sc.Plan(k, kind))
                hit = any(e["fault"] == kind for e in log)
                m = dict(base, k=k, kind=kind, log_excerpt=[[e["e"], e["k"], e["sql"], e["fault"]] for e in log][:12])
                if not hit:
                    run.add("fault_not_reached")
                    continue
                trace(log, K, r["out"], m)
                record(r["out"], m, False)
        do_crash = thorough or sc_["crash_quick"]
        if do_crash:
            points = [(k, kind) for k in range(1, K + 1) for kind in ("exit_before", "exit_after")]
            points += [(K, "exit_before_commit"), (K, "exit_after_commit")]
            if sc_["crash_only"]:
                data = [e["k"] for e in log0 if e["e"] == "exec" and e["sql"] == "write"][-4:]     # the rows of isotherm_data
                if thorough:
                    points = [p for p in points if p[0] >= data[0] - 1]
                else:
                    points = [(data[1], "exit_after"), (K, "exit_before_commit")]
            for k, kind in points:
                H.restore()
                code, log = H.crash_call(op_, sc.Plan(k, kind))
                m = dict(base, k=k, kind=kind)
                if code != 17:
                    run.add("crash_point_not_reached")
                    continue
                trace(log, K, "crash", m)
                sess._cache = {}
                sess.new_session()       # the process is gone: whoever comes next is a new session
                record("crash", m, True)
    return records, traces, shapes, meta, setup_failures
