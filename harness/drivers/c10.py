"""C10 - isotherm model equations are mutually inverse, monotone and physically bounded.

1. TLC checks spec/ModelsMC exhaustively: on the exact (rational) parameter x pressure grid every row
   of the model equations satisfies the defining relation, zero, bounds, strict monotonicity and the
   Henry factorisation.
2. The table TLC computed (model, parameters, p, n) is replayed on model.loading / model.pressure with
   scalar, 0-d and 1-d arguments, including the zero point; float64 comparison against the rationals.
3. Relational contract: for general parameters the driver records n_i = loading(p_i), q_i = pressure(n_i)
   (and conversely for pressure-explicit models); spec/ModelsOracle (ObsStep) decides the clauses
   inverse / monotone / non-negative / capacity / Henry slope / zero in decimal arithmetic.
4. ModelIsotherm.loading_at / pressure_at against the bare model composed with the unit monomials
   that spec/UnitsOracle allows.
"""
import json
import math
import random

from ..common import Run, MachineryError, quiet_pygaps, exc_class
from .. import tlc
from ..models_common import FORMS, frac, fpar, par_key, build, shape_arg, call, per_point, denc as dec_enc, history_records, elementwise_records, wrapper_elementwise_records, integer_records

PID = "C10"
# float64 tolerances of the table replay, by accuracy class of the library routine (spec: InvClass)
TOL = {"closed": 1e-9, "quadratic": 1e-9, "root": 1e-6, "minimize": 1e-2}
ZERO_ABS = 1e-12


def _site(model, fn):
    return f"{model}.{fn}"


def _relerr(obs, exp):
    d = max(abs(obs), abs(exp))
    return 0.0 if d == 0 else abs(obs - exp) / d


# ------------------------------------------------------------------ 2. table replay
def replay_table(run, table, meta, rng, stats):
    for model in sorted(table):
        calc = meta[model]["calc"]
        cls = meta[model]["cls"]
        fwd, inv = ("loading", "pressure") if calc == "loading" else ("pressure", "loading")
        # tolerance of loading() and of pressure(): the explicit direction is a closed form
        tol_of = {fwd: TOL["closed"], inv: TOL[cls]}
        for entry in sorted(table[model], key=lambda e: par_key(e["par"])):
            par = entry["par"]
            mdl = build(model, par)
            config = "degenerate_quadratic" if entry["deg"] == "y" else "regular"
            rows = [(frac(r["p"]), frac(r["n"])) for r in entry["rows"]]
            for form in FORMS:
                for fn_name, xs, ys in (("loading", [r[0] for r in rows], [r[1] for r in rows]),
                                        ("pressure", [r[1] for r in rows], [r[0] for r in rows])):
                    if fn_name == inv and entry["inv"] != "y":
                        continue
                    fn = getattr(mdl, fn_name)
                    args = shape_arg(form, [float(x) for x in xs])
                    outs = []
                    if form == "1d":
                        o = call(fn, args[0], len(xs))
                        outs = [(o, i) for i in range(len(xs))]
                    else:
                        for a in args:
                            outs.append((call(fn, a, 1), 0))
                    for k, (o, idx) in enumerate(outs):
                        x, y = xs[k], ys[k]
                        zero_row = (x == 0)
                        run.count(("table", model, par_key(par), form, fn_name, k), nontrivial=not zero_row)
                        st = per_point(o, idx)
                        clause = ("zero_" + fn_name) if zero_row else ("inverse" if fn_name == inv else "equation")
                        base = {"site": _site(model, fn_name), "clause": clause, "form": form, "config": config}
                        detail = {"model": model, "parameters": fpar(par), "call": fn_name, "argument": float(x) if form != "1d" else [float(v) for v in xs],
                                  "index": k, "expected_rational": [y.numerator, y.denominator], "expected": float(y)}
                        if st == 1:
                            run.add("refused_calculation_error")
                            continue
                        if st == 3:
                            run.violation({**base, "observed": "exception:" + str(o.exc)}, {**detail, "message": o.msg})
                            continue
                        if st == 2:
                            run.violation({**base, "observed": "nonfinite"}, {**detail, "returned": float(o.vals[idx])})
                            continue
                        v = float(o.vals[idx])
                        if zero_row:
                            if abs(v) > ZERO_ABS:
                                run.violation({**base, "observed": "nonzero"}, {**detail, "returned": v})
                            continue
                        err = _relerr(v, float(y))
                        key = (model, fn_name)
                        if config == "regular":
                            stats[key] = max(stats.get(key, 0.0), err)
                        if err > tol_of[fn_name]:
                            run.violation({**base, "observed": "zero" if v == 0 else "mismatch"},
                                          {**detail, "returned": v, "relative_error": err, "tolerance": tol_of[fn_name]})
            if rng.random() < 0.01:
                run.sample({"kind": "table row replayed", "model": model, "parameters": par,
                            "p": entry["rows"][-1]["p"], "n": entry["rows"][-1]["n"]})


# ------------------------------------------------------------------ 3. relational contract
def _enc(v):
    return dec_enc(v) if (v is not None and math.isfinite(v)) else [0, 0]


def observe_loading_explicit(mdl, args, form, H):
    """-> (record fields, culprit info per point)"""
    import numpy
    n = len(args)
    pts, info = [], []
    if form == "1d":
        o1 = call(mdl.loading, numpy.array(args), n)
        o2 = call(mdl.pressure, o1.raw, n) if o1.st == 0 else None
        seq = [(o1, o2, i) for i in range(n)]
    else:
        seq = []
        for a in shape_arg(form, args):
            o1 = call(mdl.loading, a, 1)
            o2 = call(mdl.pressure, o1.raw, 1) if o1.st == 0 else None
            seq.append((o1, o2, 0))
    for k, (o1, o2, i) in enumerate(seq):
        s1 = per_point(o1, i)
        s2 = per_point(o2, i) if (s1 == 0 and o2 is not None) else None
        st = s1 if s1 != 0 else s2
        y = float(o1.vals[i]) if o1.st == 0 else None
        z = float(o2.vals[i]) if (o2 is not None and o2.st == 0) else None
        pts.append({"st": st, "x": dec_enc(args[k]), "y": _enc(y), "z": _enc(z)})
        info.append({"x": args[k], "y": y, "z": z, "failed_call": "loading" if s1 != 0 else "pressure",
                     "exc": (o1.exc if s1 != 0 else (o2.exc if o2 is not None else None)),
                     "msg": (o1.msg if s1 != 0 else (o2.msg if o2 is not None else ""))})
    # zero point
    zarg = {"scalar": 0.0, "0d": numpy.array(0.0), "1d": numpy.array([0.0, args[0]])}[form]
    nz = 2 if form == "1d" else 1
    o1 = call(mdl.loading, zarg, nz)
    o2 = call(mdl.pressure, o1.raw, nz) if o1.st == 0 else None
    s1 = per_point(o1, 0)
    s2 = per_point(o2, 0) if (s1 == 0 and o2 is not None) else None
    zst = s1 if s1 != 0 else s2
    zy = float(o1.vals[0]) if o1.st == 0 else None
    zz = float(o2.vals[0]) if (o2 is not None and o2.st == 0) else None
    zero = {"st": zst, "y": _enc(zy), "z": _enc(zz)}
    zinfo = {"x": 0.0, "y": zy, "z": zz, "failed_call": "loading" if s1 != 0 else "pressure",
             "exc": (o1.exc if s1 != 0 else (o2.exc if o2 is not None else None)), "msg": (o1.msg if s1 != 0 else (o2.msg if o2 is not None else ""))}
    # Henry: far below the first grid pressure
    pe = args[0] * 1e-22
    earg = {"scalar": pe, "0d": numpy.array(pe), "1d": numpy.array([pe])}[form]
    o = call(mdl.loading, earg, 1)
    hs = per_point(o, 0)
    hy = float(o.vals[0]) if o.st == 0 else None
    hen = {"st": hs, "x": dec_enc(pe), "y": _enc(hy)}
    hinfo = {"x": pe, "y": hy, "failed_call": "loading", "exc": o.exc, "msg": o.msg}
    return pts, zero, hen, info, zinfo, hinfo


def observe_pressure_explicit(mdl, args, form, H):
    import numpy
    n = len(args)
    pts, info = [], []
    if form == "1d":
        o1 = call(mdl.pressure, numpy.array(args), n)
        o2 = call(mdl.loading, o1.raw, n) if o1.st == 0 else None
        o3 = call(mdl.pressure, o2.raw, n) if (o2 is not None and o2.st == 0) else None
        seq = [(o1, o2, o3, i) for i in range(n)]
    else:
        seq = []
        for a in shape_arg(form, args):
            o1 = call(mdl.pressure, a, 1)
            o2 = call(mdl.loading, o1.raw, 1) if o1.st == 0 else None
            o3 = call(mdl.pressure, o2.raw, 1) if (o2 is not None and o2.st == 0) else None
            seq.append((o1, o2, o3, 0))
    for k, (o1, o2, o3, i) in enumerate(seq):
        st = per_point(o1, i)
        if st == 0 and o2 is not None:
            sm = per_point(o2, i)
            if sm == 0 and o3 is not None and per_point(o3, i) != 0:
                sm = per_point(o3, i)
        else:
            sm = 1  # nothing to judge
        y = float(o1.vals[i]) if o1.st == 0 else None
        z = float(o2.vals[i]) if (o2 is not None and o2.st == 0) else None
        w = float(o3.vals[i]) if (o3 is not None and o3.st == 0) else None
        pts.append({"st": st, "sm": sm, "x": dec_enc(args[k]), "y": _enc(y), "z": _enc(z), "w": _enc(w)})
        info.append({"x": args[k], "y": y, "z": z, "w": w, "failed_call": "pressure" if st != 0 else "loading",
                     "exc": (o1.exc if st != 0 else (o2.exc if o2 is not None and o2.st != 0 else (o3.exc if o3 is not None else None))),
                     "msg": (o1.msg if st != 0 else (o2.msg if o2 is not None and o2.st != 0 else (o3.msg if o3 is not None else "")))})
    zarg = {"scalar": 0.0, "0d": numpy.array(0.0), "1d": numpy.array([0.0, 0.0])}[form]
    nz = 2 if form == "1d" else 1
    o1 = call(mdl.pressure, zarg, nz)
    o2 = call(mdl.loading, zarg, nz)
    zero = {"st": per_point(o1, 0), "sm": per_point(o2, 0),
            "y": _enc(float(o1.vals[0]) if o1.st == 0 else None), "z": _enc(float(o2.vals[0]) if o2.st == 0 else None)}
    zinfo = {"x": 0.0, "pressure(0)": float(o1.vals[0]) if o1.st == 0 else None, "loading(0)": float(o2.vals[0]) if o2.st == 0 else None,
             "exc": o1.exc or o2.exc, "msg": o1.msg or o2.msg, "failed_call": "pressure" if o1.st != 0 else "loading"}
    ne = args[0] * 1e-10
    ps = args[0] * 1e-4 / H
    e1 = {"scalar": ne, "0d": numpy.array(ne), "1d": numpy.array([ne])}[form]
    e2 = {"scalar": ps, "0d": numpy.array(ps), "1d": numpy.array([ps])}[form]
    o1 = call(mdl.pressure, e1, 1)
    o2 = call(mdl.loading, e2, 1)
    hen = {"st": per_point(o1, 0), "sm": per_point(o2, 0), "x": dec_enc(ne), "y": _enc(float(o1.vals[0]) if o1.st == 0 else None),
           "p": dec_enc(ps), "z": _enc(float(o2.vals[0]) if o2.st == 0 else None)}
    hinfo = {"n_small": ne, "pressure(n_small)": float(o1.vals[0]) if o1.st == 0 else None, "p_small": ps,
             "loading(p_small)": float(o2.vals[0]) if o2.st == 0 else None, "exc": o1.exc or o2.exc, "msg": o1.msg or o2.msg,
             "failed_call": "pressure" if o1.st != 0 else "loading"}
    return pts, zero, hen, info, zinfo, hinfo


_OBSERVED = {"nonneg": "negative", "cap": "above_capacity", "monotone": "decreasing", "henry": "wrong_slope",
             "henry_pressure": "wrong_slope", "zero_loading": "nonzero", "zero_pressure": "nonzero"}


def judge_obs(run, model, calc, entry, form, ans, info, zinfo, hinfo, extra=None, shown_parameters=None):
    config = "degenerate_quadratic" if entry["deg"] == "y" else "regular"
    inv_fn = "pressure" if calc == "loading" else "loading"
    for b in ans["bad"]:
        clause, at = b["clause"], b["at"]
        pinfo = info[at - 1] if at > 0 else (zinfo if at == 0 else hinfo)
        if clause in ("value", "value_pressure"):
            fn = pinfo.get("failed_call", inv_fn)
            observed = ("exception:" + str(pinfo.get("exc"))) if pinfo.get("exc") else "nonfinite"
            # no value at all: name the clause that could not be evaluated
            clause_out = ("zero_" + fn) if at == 0 else (("henry" if at < 0 else ("inverse" if fn == inv_fn else "equation")))
        elif clause in ("inverse", "inverse_pressure"):
            fn = inv_fn
            ret = pinfo.get("z")
            observed = "zero" if ret == 0 else "mismatch"
            clause_out = clause
        else:
            fn = "pressure" if clause in ("zero_pressure", "henry_pressure") else "loading"
            if calc == "loading" and clause == "zero_pressure":
                fn = "pressure"
            observed = _OBSERVED.get(clause, "mismatch")
            clause_out = clause
        run.violation({"site": _site(model, fn), "clause": clause_out, "form": form, "config": config, "observed": observed, **(extra or {})},
                      {"model": model, "parameters": shown_parameters or fpar(entry["par"]), "parameters_rational": entry["par"], "point": pinfo,
                       "where": "grid point %d" % at if at > 0 else ("zero point" if at == 0 else "Henry limit"),
                       "spec": "Models!Obs%sExplicit clause %s" % ("Loading" if calc == "loading" else "Pressure", clause)})


def relational(run, grid, meta, rng, thorough):
    """-> [(record, handler)] for the batch oracle call"""
    items = []
    for model in sorted(grid):
        calc = meta[model]["calc"]
        entries = sorted(grid[model], key=lambda e: par_key(e["par"]))
        if not thorough:
            rng.shuffle(entries)
            entries = entries[:max(6, len(entries) // 3)]
        for entry in entries:
            mdl = build(model, entry["par"])
            args = [float(frac(a)) for a in entry["fine" if thorough else "args"]]
            H = float(frac(entry["H"])) if meta[model]["henry"] == "y" else None
            for form in FORMS:
                obs = (observe_loading_explicit if calc == "loading" else observe_pressure_explicit)(mdl, args, form, H)
                pts, zero, hen, info, zinfo, hinfo = obs
                run.count(("obs", model, par_key(entry["par"]), form), n=len(pts) + 2)

                def handler(ans, model=model, calc=calc, entry=entry, form=form, info=info, zinfo=zinfo, hinfo=hinfo):
                    judge_obs(run, model, calc, entry, form, ans, info, zinfo, hinfo)
                    if calc == "pressure":
                        run.add("pressure_explicit_points_before_turning_point", int(ans["prefix"]))
                items.append(({"k": "obs", "model": model, "par": entry["par"], "pts": pts, "zero": zero, "hen": hen, "e10": 0}, handler))
    return items


def magnitudes(run, grid, meta, magplan, rng, thorough):
    """The same physical isotherm expressed in pressure units 10^e apart (K from 1e-6 to 1e7, pressures ~ 1/K):
    every clause of the relational contract must hold at every magnitude."""
    from pygaps.modelling import get_isotherm_model
    items = []
    for model in sorted(magplan["power"]):
        calc = meta[model]["calc"]
        power = magplan["power"][model]
        entries = sorted(grid[model], key=lambda e: par_key(e["par"]))
        rng.shuffle(entries)
        for entry in entries[: (3 if thorough else 1)]:
            for e10 in sorted(magplan["exps"]):
                par = {k: v * 10.0 ** (e10 * int(power.get(k, 0))) for k, v in fpar(entry["par"]).items()}
                mdl = get_isotherm_model(model, parameters=par)
                args = [float(frac(a)) for a in entry["args"]]
                if calc == "loading":
                    args = [a * 10.0 ** (-e10) for a in args]
                H = float(frac(entry["H"])) * 10.0 ** e10 if meta[model]["henry"] == "y" else None
                for form in FORMS:
                    pts, zero, hen, info, zinfo, hinfo = (observe_loading_explicit if calc == "loading" else observe_pressure_explicit)(mdl, args, form, H)
                    run.count(("mag", model, par_key(entry["par"]), e10, form), n=len(pts) + 2)

                    def handler(ans, model=model, calc=calc, entry=entry, form=form, info=info, zinfo=zinfo, hinfo=hinfo, e10=e10, par=par):
                        judge_obs(run, model, calc, entry, form, ans, info, zinfo, hinfo,
                                  extra={"magnitude": "parameters x 1e%+d per pressure unit" % e10}, shown_parameters=par)
                    items.append(({"k": "obs", "model": model, "par": entry["par"], "pts": pts, "zero": zero, "hen": hen, "e10": e10}, handler))
    run.set(magnitude_records=len(items))
    return items


# ------------------------------------------------------------------ 3b. history on one model object
def histories(run, plans, meta, rng, thorough):
    items = []
    for model in sorted(plans):
        calc = meta[model]["calc"]
        chain = [("loading", "args"), ("pressure", "loading")] if calc == "loading" else [("pressure", "args"), ("loading", "pressure")]
        items += history_records(run, plans[model], model, calc, chain, ("scalar", "1d"), 6 if thorough else 2, rng)
    run.set(histories_replayed=len(items))
    return items


# ------------------------------------------------------------------ 3c. elementwise: unsorted arrays with repeats
def elementwise(run, plan, meta, rng, thorough):
    import pygaps
    items = []
    patterns = plan["patterns"]
    for model in sorted(plan["args"]):
        calc = meta[model]["calc"]
        chain = [("loading", "args"), ("pressure", "loading")] if calc == "loading" else [("pressure", "args"), ("loading", "pressure")]
        items += elementwise_records(run, model, calc, plan["args"][model], patterns, chain, ("ndarray", "series"),
                                     6 if thorough else 2, 4 if thorough else 2, rng)
        # through the ModelIsotherm wrapper, in the isotherm's own units: ndarray, list, Series
        entries = sorted(plan["args"][model], key=lambda e: par_key(e["par"]))
        for e in ([entries[rng.randrange(len(entries))]] if not thorough else [entries[rng.randrange(len(entries))] for _ in range(3)]):
            iso = pygaps.ModelIsotherm(model=build(model, e["par"]), material="verif_mat_c10_elem", adsorbate="nitrogen", temperature=77.344,
                                       pressure_mode="absolute", pressure_unit="bar", loading_basis="molar", loading_unit="mmol",
                                       material_basis="mass", material_unit="g")
            mdl = iso.model      # the very object the wrapper delegates to (DR/DA take RT from the isotherm's temperature)
            xs = [float(frac(x)) for x in e["xs"]]
            if calc == "loading":
                ps = xs
                ns = [call(mdl.loading, p, 1) for p in ps]
            else:
                ns_ = xs
                ps_o = [call(mdl.pressure, n, 1) for n in ns_]
                if any(o.st != 0 for o in ps_o):
                    continue
                ps, ns = [float(o.vals[0]) for o in ps_o], None
            pairs = [("loading_at", "loading", ps)]
            if calc == "loading":
                if all(o.st == 0 for o in ns):
                    pairs.append(("pressure_at", "pressure", [float(o.vals[0]) for o in ns]))
            else:
                pairs.append(("pressure_at", "pressure", xs))
            items += wrapper_elementwise_records(run, iso, mdl, model, pairs, patterns, 2 if thorough else 1, rng)
    run.set(elementwise_records=len(items))
    return items


# ------------------------------------------------------------------ 3d. integer-typed arguments
BARE_INT_KINDS = ("python_int", "numpy_int64", "0d_int_array", "int_ndarray", "int_series")
WRAP_INT_KINDS = ("python_int", "int_ndarray", "int_list", "int_series")


def integer_inputs(run, intplan, meta, rng, thorough):
    import pygaps
    items = []
    for model in sorted(intplan):
        entries = sorted(intplan[model], key=lambda e: (-(len(e["pressures"]) + len(e["loadings"])), par_key(e["par"])))
        best = [e for e in entries if len(e["pressures"]) + len(e["loadings"]) == len(entries[0]["pressures"]) + len(entries[0]["loadings"])]
        rng.shuffle(best)
        for e in best[: (3 if thorough else 1)]:
            mdl = build(model, e["par"])
            items += integer_records(run, model, model, mdl.loading, "loading", [int(v) for v in e["pressures"]], BARE_INT_KINDS, "bare")
            items += integer_records(run, model, model, mdl.pressure, "pressure", [int(v) for v in e["loadings"]], BARE_INT_KINDS, "bare")
            iso = pygaps.ModelIsotherm(model=build(model, e["par"]), material="verif_mat_c10_int", adsorbate="nitrogen", temperature=77.344,
                                       pressure_mode="absolute", pressure_unit="bar", loading_basis="molar", loading_unit="mmol",
                                       material_basis="mass", material_unit="g")
            items += integer_records(run, "ModelIsotherm", model, iso.loading_at, "loading_at", [int(v) for v in e["pressures"]], WRAP_INT_KINDS, "wrapper")
            items += integer_records(run, "ModelIsotherm", model, iso.pressure_at, "pressure_at", [int(v) for v in e["loadings"]], WRAP_INT_KINDS, "wrapper")
    run.set(integer_input_records=len(items))
    return items


# ------------------------------------------------------------------ 4. ModelIsotherm wrapper
def wrapper(run, table, rng, thorough):
    import numpy
    import pygaps
    from ..units_common import Atoms, dec
    reps = tlc.oracle("UnitsOracle", [{"k": "reps", "f": ["a", "b"], "t": ["a", "b"], "m": ["a", "b"]}])[0]["impl"]
    P, L, M = [tuple(x) for x in reps["P"]], [tuple(x) for x in reps["L"]], [tuple(x) for x in reps["M"]]
    # (an Adsorbate instance cannot be handed to an isotherm constructor: `None in [material, adsorbate, ...]`
    #  calls Adsorbate.__eq__(None); names / dictionaries are the supported route)
    temp = 77.344
    probe = pygaps.ModelIsotherm(model=build("Henry", {"K": [1, 1]}), material={"name": "verif_mat_c10", "density": 1.737, "molar_mass": 419.3},
                                 adsorbate="nitrogen", temperature=temp, pressure_mode="absolute", pressure_unit="bar",
                                 loading_basis="molar", loading_unit="mmol", material_basis="mass", material_unit="g")
    ads, mat = probe.adsorbate, probe.material
    atoms = Atoms(ads, temp, mat)
    natives = [(("absolute", "bar"), ("molar", "mmol"), ("mass", "g")),
               (("relative", "none"), ("mass", "mg"), ("volume", "cm3"))]
    mats = [("mass", "g"), ("mass", "kg"), ("volume", "cm3"), ("molar", "mmol")] if not thorough else M
    # expected monomials from the unit specification
    recs, keys = [], []
    for ni, (p0, l0, m0) in enumerate(natives):
        for p in P:
            recs.append({"k": "P", "f": list(p0), "t": list(p), "m": ["mass", "g"]}); keys.append(("P", ni, p))
        for m in mats:
            recs.append({"k": "M", "f": list(m0), "t": list(m), "m": ["mass", "g"]}); keys.append(("M", ni, m))
            for l in L:
                recs.append({"k": "L", "f": list(l0), "t": list(l), "m": list(m)}); keys.append(("L", ni, l, m))
    # the isotherm's temperature may be stored in degC: the model must be used at the kelvin temperature
    recs.append({"k": "T", "f": ["x", "°C"], "t": ["x", "K"], "m": ["x", "x"]}); keys.append(("T",))
    ans = tlc.oracle("UnitsOracle", recs, timeout=600)
    tk = [x["k"] for x in ans[-1]["allowed"] if x["kind"] == "val"]
    if len(tk) != 1:
        raise MachineryError("unit specification gives no unique kelvin offset for degC")
    temps = [("K", temp), ("°C", temp - tk[0] * 273.15)]
    recs, keys, ans = recs[:-1], keys[:-1], ans[:-1]
    factor = {}
    for key, a in zip(keys, ans):
        vals = [x for x in a["allowed"] if x["kind"] == "val"]
        factor[key] = atoms.value(vals[0]["vec"]) if vals else None
    models = [("Langmuir", {"K": [7, 5], "n_m": [17, 5]}, [0.05, 0.4, 2.5]),
              ("Toth", {"n_m": [17, 5], "K": [13, 2], "t": [3, 4]}, [0.02, 0.3, 1.7]),
              ("BET", {"n_m": [3, 4], "C": [80, 1], "N": [2, 5]}, [0.05, 0.5, 1.2]),
              ("FHVST", {"n_m": [17, 5], "K": [7, 5], "a1v": [1, 2]}, [0.1, 0.9, 4.0]),
              # the two models whose equation contains the temperature (RT ln p)
              ("DR", {"n_m": [17, 5], "e": [1500, 1]}, [0.1, 0.4, 0.9]),
              ("DA", {"n_m": [17, 5], "e": [1500, 1], "m": [5, 2]}, [0.1, 0.4, 0.9])]
    done = 0
    for model, par, pnat in models:
      for ni, (p0, l0, m0) in enumerate(natives):
        for tunit, tval in temps:
            # the bare model equation at the isotherm's temperature in kelvin
            bare = build(model, par)
            bare.__init_parameters__({"temperature": temp})
            iso = pygaps.ModelIsotherm(
                model=build(model, par), material={"name": "verif_mat_c10", "density": 1.737, "molar_mass": 419.3},
                adsorbate="nitrogen", temperature=tval, temperature_unit=tunit,
                pressure_mode=p0[0], pressure_unit=dec(p0[1]), loading_basis=l0[0], loading_unit=dec(l0[1]),
                material_basis=m0[0], material_unit=dec(m0[1]))
            route = "ready-made model, temperature stored in " + tunit
            pn = numpy.array(pnat)
            nn = numpy.asarray(bare.loading(pn), dtype=float).ravel()
            configs = [(p, l0, m0) for p in P] + ([(p0, l, m) for m in mats for l in L] if tunit == "K" else [])
            extra = [(p, l, m) for p in P for m in mats for l in L]
            rng.shuffle(extra)
            configs += extra[: ((600 if thorough else 120) if tunit == "K" else 40)]
            for (p, l, m) in configs:
                fp, fm, fl = factor[("P", ni, p)], factor[("M", ni, m)], factor[("L", ni, l, m)]
                if None in (fp, fm, fl):
                    run.add("wrapper_not_judged_no_value_allowed")
                    continue
                kw = dict(pressure_mode=p[0], pressure_unit=dec(p[1]), loading_basis=l[0], loading_unit=dec(l[1]),
                          material_basis=m[0], material_unit=dec(m[1]))
                for fn, arg, exp, site in (("loading_at", pn * fp, nn * fm * fl, "ModelIsotherm.loading_at"),
                                           ("pressure_at", nn * fm * fl, pn * fp, "ModelIsotherm.pressure_at")):
                    for form in ("1d", "scalar"):
                        a = arg if form == "1d" else float(arg[1])
                        e = exp if form == "1d" else exp[1:2]
                        trivial = (p == p0 and l == l0 and m == m0)
                        run.count(("wrap", model, ni, fn, p, l, m, form), nontrivial=not trivial)
                        done += 1
                        changed = "+".join(w for w, x, y in (("pressure", p, p0), ("loading", l, l0), ("material", m, m0)) if x != y) or "nothing"
                        sig = {"site": site, "clause": "wrapper", "form": form, "requested_differs_in": changed, "isotherm": route}
                        detail = {"model": model, "parameters": fpar(par), "native_units": [p0, l0, m0], "requested": kw, "argument": a,
                                  "expected": e, "unit_factors": {"pressure": fp, "material": fm, "loading": fl}}
                        try:
                            out = getattr(iso, fn)(a, **kw)
                        except Exception as ex:  # noqa: BLE001
                            c = exc_class(ex)
                            if c == "CalculationError":      # a numerical inverse that reports failure is not judged
                                run.add("wrapper_refused_" + c)
                                continue
                            # the unit specification allows a value (and nothing else) for these fully specified, valid arguments
                            run.violation({**sig, "observed": ("refused:" if c == "ParameterError" else "exception:") + c}, {**detail, "message": str(ex)[:200]})
                            continue
                        o = numpy.asarray(out, dtype=float).ravel()
                        if o.shape != numpy.shape(e) or not numpy.all(numpy.isfinite(o)) or \
                                not numpy.allclose(o, e, rtol=TOL["root"] if model == "FHVST" else TOL["closed"], atol=0):
                            run.violation({**sig, "observed": "differs from bare model after unit conversion"}, {**detail, "returned": o})
    # the fitted route: the isotherm builds its own model from data; afterwards it must answer like the bare model with the
    # fitted parameters at the kelvin temperature (relative pressure, temperature stored in K and in degC)
    from pygaps.modelling import get_isotherm_model
    p0 = ("relative", "none")
    for model, par, _ in [m for m in models if m[0] in ("DR", "DA", "Langmuir")]:
        for tunit, tval in temps:
            src = build(model, par)
            src.__init_parameters__({"temperature": temp})
            ps = numpy.linspace(0.04, 0.96, 14)
            ns = numpy.asarray(src.loading(ps), dtype=float)
            try:
                iso = pygaps.ModelIsotherm(pressure=ps, loading=ns, model=model, material={"name": "verif_mat_c10", "density": 1.737, "molar_mass": 419.3},
                                           adsorbate="nitrogen", temperature=tval, temperature_unit=tunit, pressure_mode="relative", pressure_unit=None,
                                           loading_basis="molar", loading_unit="mmol", material_basis="mass", material_unit="g")
            except Exception as ex:  # noqa: BLE001
                if exc_class(ex) == "CalculationError":
                    run.add("wrapper_fit_failed")
                    continue
                raise
            bare = get_isotherm_model(model, parameters={k: float(v) for k, v in iso.model.params.items()})
            bare.__init_parameters__({"temperature": temp})
            pq = numpy.array([0.07, 0.33, 0.81])
            nq = numpy.asarray(bare.loading(pq), dtype=float)
            route = "fitted model, temperature stored in " + tunit
            for p in P:
                fp = factor[("P", 1, p)]
                kw = dict(pressure_mode=p[0], pressure_unit=dec(p[1]))
                for fn, arg, exp, site in (("loading_at", pq * fp, nq, "ModelIsotherm.loading_at"), ("pressure_at", nq, pq * fp, "ModelIsotherm.pressure_at")):
                    run.count(("wrap-fitted", model, tunit, fn, p), nontrivial=True)
                    done += 1
                    sig = {"site": site, "clause": "wrapper", "form": "1d", "requested_differs_in": "pressure" if p != p0 else "nothing", "isotherm": route}
                    detail = {"model": model, "fitted_parameters": dict(iso.model.params), "requested": kw, "argument": arg, "expected": exp,
                              "temperature": [tval, tunit]}
                    try:
                        out = numpy.asarray(getattr(iso, fn)(arg, **kw), dtype=float).ravel()
                    except Exception as ex:  # noqa: BLE001
                        c = exc_class(ex)
                        run.violation({**sig, "observed": ("refused:" if c in ("ParameterError", "CalculationError") else "exception:") + c}, {**detail, "message": str(ex)[:200]})
                        continue
                    if out.shape != exp.shape or not numpy.allclose(out, exp, rtol=TOL["closed"], atol=0):
                        run.violation({**sig, "observed": "differs from bare model after unit conversion"}, {**detail, "returned": out})
    run.set(wrapper_evaluations=done)
    run.sample({"kind": "wrapper configuration", "model": models[1][0], "native": natives[1], "requested": configs[-1]})


# ------------------------------------------------------------------ entry points
def main(tier, seed):
    quiet_pygaps()
    import numpy
    numpy.seterr(all="ignore")
    run = Run(PID, tier, seed, "exploration")
    rng = random.Random(seed)
    thorough = tier == "thorough"

    res = tlc.must_pass("ModelsMC", timeout=600)
    run.set(states=res["distinct"], transitions=res["states_generated"], tlc_depth=res["depth"],
            tlc_invariants=["Rows", "Zeros", "GridShape", "GeneralGridShape", "Monotone (action property)"])
    if res["distinct"] < 1000:
        raise MachineryError(f"ModelsMC explored only {res['distinct']} states; the exact grid has > 1000 rows")

    ans = tlc.oracle("ModelsOracle", [{"k": "table"}, {"k": "grid"}, {"k": "histplan"}, {"k": "elemplan"}, {"k": "magplan"}, {"k": "intplan"}], timeout=600)
    table, meta, grid, plans, eplan, magplan, intplan = ans[0]["table"], ans[0]["meta"], ans[1]["grid"], ans[2]["plans"], ans[3], ans[4], ans[5]
    if len(table) != 16 or len(grid) != 16:
        raise MachineryError("the specification does not list the 16 models of the property")
    import pygaps.modelling as pm
    if sorted(pm._MODELS) != sorted(table):
        raise MachineryError(f"model list of the library {sorted(pm._MODELS)} differs from the specification's")
    for model in table:
        cls = getattr(__import__(f"pygaps.modelling.{model.lower()}", fromlist=[model]), model)
        if cls.calculates != meta[model]["calc"]:
            raise MachineryError(f"{model}: library says calculates={cls.calculates}, specification {meta[model]['calc']}")
        for entry in list(table[model]) + list(grid[model]):
            p = fpar(entry["par"])
            names = [cls.param_names] if isinstance(cls.param_names, str) else list(cls.param_names)
            if sorted(p) != sorted(names):
                raise MachineryError(f"{model}: parameter names {sorted(p)} vs library {sorted(names)}")
            for nme, (lo, hi) in zip(names, cls.param_default_bounds):
                if not (lo <= p[nme] <= hi):
                    raise MachineryError(f"{model}: grid parameter {nme}={p[nme]} outside the declared bounds ({lo}, {hi})")

    stats = {}
    replay_table(run, table, meta, rng, stats)
    run.set(table_rows=sum(len(e["rows"]) for m in table for e in table[m]),
            table_worst_relative_error={f"{k[0]}.{k[1]}": float(f"{v:.3g}") for k, v in sorted(stats.items()) if v > 1e-12})
    items = relational(run, grid, meta, rng, thorough) + magnitudes(run, grid, meta, magplan, rng, thorough) \
        + histories(run, plans, meta, rng, thorough) + elementwise(run, eplan, meta, rng, thorough) + integer_inputs(run, intplan, meta, rng, thorough)
    # one TLC invocation judges every recorded observation (obs / hist / elem records)
    answers = tlc.oracle("ModelsOracle", [r for r, _ in items], timeout=900)
    for (_, handler), a in zip(items, answers):
        handler(a)
    run.add("traces_validated_against_impl", len(items))
    for kind in ("obs", "hist", "elem"):
        idx = [i for i, (r, _) in enumerate(items) if r["k"] == kind]
        if idx:
            k = idx[rng.randrange(len(idx))]
            r = dict(items[k][0])
            if kind == "hist":
                r["evals"] = r["evals"][:2] + ["..."]
            run.sample({"kind": f"{kind} record judged by ModelsOracle", "record": r, "answer": answers[k]}, limit=8)
    wrapper(run, table, rng, thorough)

    run.set(exhaustive=False,
            rule="(a) every row of the exact table TLC derives from the model equations in spec/Models.tla (16 models, 265 parameter vectors, "
                 "zero point + 1-6 pressures each) replayed on loading() and pressure() with scalar / 0-d / 1-d arguments; "
                 "(b) general parameter vectors enumerated by the specification (" + ("all" if thorough else "a seeded third, at least 6 per model")
                 + ") x 5-9 arguments (thorough: with their midpoints, 9-17) x 3 argument forms, observations judged clause by clause by TLC (ModelsOracle); "
                 "(b2) histories on one model object (evaluate, evaluate another instance of the class, overwrite every parameter in place, re-fit in place; "
                 "re-evaluate the same arguments after each step) for " + ("6" if thorough else "2") + " seeded parameter-vector pairs per model, judged against a fresh model "
                 "with the current parameters (Models!HistStep); "
                 "(b3) elementwise clause: unsorted 6-element arrays with a repeated element (patterns enumerated by the specification: permutations that are not their own inverse) "
                 "as ndarray and pandas.Series on loading()/pressure() of every model, and as ndarray/list/Series through ModelIsotherm.loading_at/pressure_at, each position "
                 "judged against the scalar call (Models!ElemStep); "
                 "(b4) integer-typed input: whole-number arguments chosen by the specification inside each function's domain, as Python int, numpy.int64, 0-d / 1-d integer arrays, integer "
                 "Series (and lists of ints through ModelIsotherm), judged against the float input of equal value; (b5) magnitudes: the same isotherm in pressure units 10^e apart "
                 "(e in -6, -3, 3, 7: affinity constants from 1e-6 to 1e7, pressures ~ 1/K), full relational contract at every magnitude; "
                 "(c) ModelIsotherm.loading_at/pressure_at for 6 models (incl. DR/DA, whose equation holds the temperature) x 2 native unit systems x temperature stored in K / degC x requested "
                 "pressure/loading/material representations, ready-made model and fitted route, against the bare model equation at the kelvin temperature. "
                 "non-trivial = not the zero row / not the native representation; distinct = distinct (part, model, parameters, form, function, row)")
    run.assume("the model equations transcribed in spec/Models.tla (from the formula/docstring of each model class) are the reference for 'the model'")
    run.assume("DecFloat arithmetic in the specification carries 2e-7 relative error per operation: in-spec tolerances are 1e-6 (1e-2 Virial, 1e-4 Henry slope); "
               "1e-9 is enforced only on the exact table in float64")
    run.assume("validity range of pressure-explicit models = prefix of the argument grid on which the library's own closed-form pressure(n) is positive and strictly increasing")
    return run.finish()


def replay(path):
    """Re-run the call recorded in a replay file and print what the library does now."""
    quiet_pygaps()
    with open(path) as f:
        rep = json.load(f)
    d = rep.get("detail") or {}
    print(json.dumps(rep["sig"], sort_keys=True))
    if "call" in d and "model" in d:
        import numpy
        from pygaps.modelling import get_isotherm_model
        mdl = get_isotherm_model(d["model"], parameters=d["parameters"])
        arg = d["argument"]
        arg = numpy.array(arg) if isinstance(arg, list) else arg
        try:
            out = getattr(mdl, d["call"])(arg)
            print(f"{d['model']}.{d['call']}({arg!r}) with {d['parameters']} -> {out!r}; expected {d.get('expected')}")
            o = numpy.asarray(out, dtype=float).ravel()[d.get("index", 0) if isinstance(d["argument"], list) else 0]
            return 0 if _relerr(float(o), float(d["expected"])) <= 1e-6 else 1
        except Exception as e:  # noqa: BLE001
            print(f"{d['model']}.{d['call']}({arg!r}) with {d['parameters']} raised {type(e).__name__}: {e}")
            return 1
    print(json.dumps(d, indent=1)[:3000])
    return 1
