"""X02 (growth beyond the listed properties) - plot_iso draws what the accessors return.

The curves plot_iso() puts on the axes, for every stored representation x requested unit arguments
(plus branch selection, swapped axes and evaluation at given points), must be the stored data times the
conversion monomials spec/IsoAccess.tla prescribes for "convert a copy, read natively" (the same
oracle as C03, accessors p.pressure / p.loading / m.pressure / m.loading), in the stored order.
"""
import random

import numpy

from ..common import Run, exc_class, MachineryError, quiet_pygaps
from .. import tlc
from ..units_common import n2, custom_adsorbate, custom_material
from ..iso_common import make_point, MODES, LBASES, MBASES, lunits, munits
from .c02 import Fixture, all_p, all_l, all_m, state
from .c03 import make_model, d

PID = "X02"
P = [0.1, 0.25, 0.5, 0.9, 1.4, 0.8, 0.3]
L = [1.0, 2.1, 3.3, 4.2, 4.9, 4.4, 2.9]
BR = [0, 0, 0, 0, 0, 1, 1]


def main(tier, seed):
    quiet_pygaps()
    import matplotlib
    matplotlib.use("Agg")
    import matplotlib.pyplot as plt
    from pygaps.graphing.isotherm_graphs import plot_iso
    run = Run(PID, tier, seed, "model_checking")
    rng = random.Random(seed)
    thorough = tier == "thorough"
    res = tlc.must_pass("IsoAccessMC", cfg="IsoAccessMC", timeout=900)
    run.set(states=res["distinct"], transitions=res["states_generated"], tlc_invariants=["OnlyKnownDivergences (design level, shared with C03)"])
    fx = [Fixture("N2@77.344/full material", n2(), 77.344, custom_material()),
          Fixture("custom adsorbate with user properties", custom_adsorbate("verif_gas_a"), 298.15, custom_material("verif_mat_b", 0.913, 77.7))]
    nonfrac_l = [l for l in all_l() if l[0] not in ("fraction", "percent")]
    cases = []
    n = 1500 if thorough else 220
    for i in range(n):
        s = state(p=rng.choice(all_p()), l=rng.choice(nonfrac_l), m=rng.choice(all_m()))
        g = {"pm": "none", "pu": "none", "lb": "none", "lu": "none", "mb": "none", "mu": "none"}
        if rng.random() < 0.7:
            p = rng.choice(all_p())
            g["pm"], g["pu"] = p
        if rng.random() < 0.7:
            l = rng.choice(nonfrac_l)
            g["lb"], g["lu"] = l
        if rng.random() < 0.6:
            m = rng.choice(all_m())
            g["mb"], g["mu"] = m
        cases.append((s, g, fx[i % 2], rng.choice(["all", "ads", "des"]), rng.random() < 0.25, "model" if i % 5 == 4 else "point"))
    recs = []
    for s, g, fix, branch, swap, kind in cases:
        pre = "p." if kind == "point" else "m."
        recs.append({"acc": pre + "pressure", "s": s, "g": g, "av": fix.avail})
        recs.append({"acc": pre + "loading", "s": s, "g": g, "av": fix.avail})
    ans = tlc.oracle("IsoAccessOracle", recs, timeout=1200, chunk=10000)
    for k, (s, g, fix, branch, swap, kind) in enumerate(cases):
        ap, al = ans[2 * k], ans[2 * k + 1]
        kw = {}
        for key, name in (("pm", "pressure_mode"), ("pu", "pressure_unit"), ("lb", "loading_basis"), ("lu", "loading_unit"), ("mb", "material_basis"), ("mu", "material_unit")):
            if g[key] != "none":
                kw[name] = d(g[key])
        if kind == "point":
            iso = make_point(s, fix.ads, fix.mat, fix.temp, P, L, branch=BR)
            sel = [i for i, b in enumerate(BR) if branch == "all" or b == (0 if branch == "ads" else 1)]
            xs, ys = [P[i] for i in sel], [L[i] for i in sel]
        else:
            if branch == "des":
                branch = "ads"
            iso = make_model(s, fix)
            xs = list(iso.pressure())
            ys = list(iso.loading())
        fp = [fix.atoms.value(v) for v in ap["vout"]]
        fl = [fix.atoms.value(v) for v in al["vout"]]
        run.count((tuple(sorted(s.items())), tuple(sorted(g.items())), branch, swap, kind), nontrivial=bool(kw))
        sig = {"site": "plot_iso", "isotherm": kind, "branch": branch, "args": "+".join(sorted(kw)) or "none", "swapped_axes": swap}
        fig, ax = plt.subplots()
        try:
            try:
                if swap:
                    plot_iso(iso, ax=ax, x_data="loading", y1_data="pressure", branch=branch, **kw)
                else:
                    plot_iso(iso, ax=ax, branch=branch, **kw)
            except Exception as e:
                if ap["must"] and al["must"] and None not in fp + fl:
                    run.violation({**sig, "observed": "refused a fully specified valid request", "exception": exc_class(e)}, {"stored": s, "args": g, "message": str(e)[:200]})
                continue
            lines = [ln for ln in ax.get_lines() if len(ln.get_xdata()) > 0]
            if not fp or not fl or None in fp + fl:
                continue
            got_x = numpy.concatenate([numpy.asarray(ln.get_xdata(), dtype=float) for ln in lines]) if lines else numpy.array([])
            got_y = numpy.concatenate([numpy.asarray(ln.get_ydata(), dtype=float) for ln in lines]) if lines else numpy.array([])
            if swap:
                got_x, got_y = got_y, got_x
            want_x = numpy.asarray(xs) * fp[0]
            want_y = numpy.asarray(ys) * fl[0]
            # plot_iso draws adsorption and desorption as separate lines: compare as multisets of points
            def canon(a, b):
                return sorted(zip(numpy.round(a / max(abs(a).max(), 1e-300), 9).tolist(), numpy.round(b / max(abs(b).max(), 1e-300), 9).tolist()))
            ok = got_x.shape == want_x.shape and numpy.allclose(sorted(got_x), sorted(want_x), rtol=1e-9) and numpy.allclose(sorted(got_y), sorted(want_y), rtol=1e-9) \
                and canon(got_x, got_y) == canon(want_x, want_y)
            if not ok:
                run.violation({**sig, "observed": "plotted points differ from the stored data converted to the requested representation"},
                              {"stored": s, "args": g, "plotted": [got_x.tolist(), got_y.tolist()], "expected": [want_x.tolist(), want_y.tolist()]})
        finally:
            plt.close(fig)
    run.add("traces_validated_against_impl", len(cases))
    run.sample({"stored": cases[0][0], "args": cases[0][1], "branch": cases[0][3]})
    run.set(exhaustive=False, rule="seeded (stored representation, unit arguments, branch, axis order, isotherm class) combinations, non-fractional loading; non-trivial = some unit argument given")
    return run.finish()
