"""X07 (growth beyond the listed properties) - model lookups and argument validation / dispatch of
pygaps.characterisation as decision tables.

spec/Lookup.tla holds the documented tables (thickness models and their tabulated standard isotherms, Kelvin
models, the meniscus table, the Kelvin geometry factors, the HK parameter sets, the PSD model names) and, for
every public operation, Spec (the set of outcomes the documentation allows) and Impl (a transcription of the
checks in the code, in order).  TLC compares them over the full abstract product of argument classes
(LookupMC: ~100 000 invocations, one named action per operation, the two module-level caches as state) and
admits exactly the named deviation classes.  This driver materialises every abstract invocation, runs the
REAL function (with call-through recorders around the numerical kernels, and the HK root solvers / the DFT
kernel fit replaced by recorders), projects outcome class, blamed argument and the identity of everything that
was dispatched to, plus both caches before and after each step, and spec/LookupOracle.tla decides.
"""
import functools
import itertools
import os
import random
import re
import shutil
import tempfile

from ..common import Run, exc_class, MachineryError, quiet_pygaps
from .. import tlc

PID = "X07"
NA = "-"
N_POINTS = 19

# ---------------------------------------------------------------- abstract product (mirror of Lookup!ArgDom)
THK = ["Halsey", "Harkins/Jura", "SiO2 Jaroniec/Kruk/Olivier", "carbon black Kruk/Jaroniec/Gadkaree", "zero thickness"]
KEL = ["Kelvin", "Kelvin-KJS"]
PORES5 = ["slit", "cylinder", "halfopen-cylinder", "sphere", "unknown"]
MEN3 = ["cylindrical", "hemispherical", "hemicylindrical"]
BR = ["ads", "des", "unknown", "none"]
LIM = ["none", "pair", "lo_only", "hi_only", "reversed", "equal", "narrow", "scalar", "single"]
TLIM = ["none", "pair", "lo_only", "hi_only", "reversed", "equal", "scalar", "single"]
HKARGS = ["Carbon(HK)", "AlSiOxideIon", "AlPhOxideIon", "dict_full", "dict_extra", "dict_no_molecular_diameter", "dict_no_polarizability",
          "dict_no_magnetic_susceptibility", "dict_no_surface_density", "dict_empty", "unknown", "none", "list"]
N = [NA]
DOM = {
    "get_thickness_model": [THK + ["unknown", "callable", "isotherm"], N, N, N, N, N, N],
    "thickness_eval": [THK, N, N, N, N, N, N],
    "get_kelvin_model": [KEL + ["unknown", "callable"], N, N, N, N, N, N],
    "get_meniscus_geometry": [BR, PORES5, N, N, N, N, N],
    "kelvin_radius": [KEL, MEN3 + ["unknown"], N, N, N, N, N],
    "get_hk_model": [HKARGS, N, N, N, N, N, N],
    "psd_mesoporous": [["pygaps-DH", "BJH", "DH", "unknown", "none"], PORES5, MEN3 + ["none", "unknown"], BR,
                       ["Halsey", "unknown", "callable", "isotherm"], KEL + ["unknown", "callable"], LIM],
    "psd_microporous": [["HK", "HK-CY", "RY", "RY-CY", "unknown", "none"], PORES5, BR,
                        ["Carbon(HK)", "AlSiOxideIon", "unknown", "dict_full", "dict_no_polarizability", "none"], ["none", "dict_full", "dict_missing"], N, LIM],
    "hk_lowlevel": [["psd_horvath_kawazoe", "psd_horvath_kawazoe_ry"], PORES5, ["cy", "nocy"], N, N, N, N],
    "psd_dft": [["none", "internal", "path_ok", "path_missing"], BR, N, N, N, N, LIM],
    "area_BET": [BR + ["des_missing"], N, N, N, N, N, LIM],
    "area_langmuir": [BR + ["des_missing"], N, N, N, N, N, LIM],
    "dr_plot": [BR + ["des_missing"], N, N, N, N, N, LIM],
    "da_plot": [["none", "0", "2", "1.5", "neg", "5"], BR, N, N, N, N, LIM],
    "t_plot": [["none", "Halsey", "Harkins/Jura", "unknown", "callable", "isotherm"], BR, N, N, N, N, TLIM],
    "alpha_s": [["none", "notiso", "same_adsorbate", "other_adsorbate"], ["none", "BET", "bet", "Langmuir", "unknown", "number", "bool", "list"],
                ["0.4", "0", "1", "1.5", "neg"], BR, ["ads", "des", "unknown"], N, ["none", "pair", "reversed", "lo_only"]],
}


def modelled(i):
    if i["op"] in ("psd_dft", "da_plot"):
        return not (i["b"] == "none" and i["g"] != "none")
    if i["op"] in ("area_BET", "area_langmuir", "dr_plot"):
        return not (i["a"] == "none" and i["g"] != "none")
    return True


def invocations(op):
    out = []
    for v in itertools.product(*DOM[op]):
        i = dict(zip("abcdefg", v), op=op)
        if modelled(i):
            out.append(i)
    return out


# ---------------------------------------------------------------- classification of what the library says
_WHY = [
    (r"Specify a model to generate the pore size|not an option for psd", "psd_model"),
    (r"Meniscus geometry", "meniscus"),
    (r"Geometry .* not an option for pore size|Pore geometry must be", "pore_geometry"),
    (r"Unknown pore geometry|only applicable\s+to cylindrical pores", "method_geometry"),
    (r"Branch '|Bad branch|Adsorption branch must be|does not have the required branch", "branch"),
    (r"Empty input values", "empty"),
    (r"does not have enough points", "limits"),
    (r"thickness function|Specify a model to generate the thickness", "thickness"),
    (r"not an implemented Kelvin model", "kelvin"),
    (r"KJS Kelvin correction", "kjs"),
    (r"Adsorbate properties dictionary is missing|adsorbate does not have all required HK", "adsorbate_model"),
    (r"Adsorbent properties dictionary is missing", "material_model"),
    (r"Model \(.*\) is not an option for pore size|Model parameters \(", "material_model"),
    (r"existing kernel name|neither an internal kernel", "kernel"),
    (r"No reference isotherm", "reference"),
    (r"adsorbate is different", "adsorbate"),
    (r"reducing pressure", "reducing_pressure"),
    (r"reference area should be|Could not calculate a (BET|Langmuir) area", "reference_area"),
    (r"Exponent cannot be negative", "exp"),
]


def why_of(e):
    msg = " ".join(str(a) for a in e.args) if e.args else str(e)
    m = re.search(r"must contain the parameter (\w+)", msg)
    if m:
        return m.group(1)
    for pat, w in _WHY:
        if re.search(pat, msg):
            return w
    return "unclassified: " + msg[:60]


def outcome(fn):
    """Run fn() -> target (list of strings); classify into the abstract outcome."""
    try:
        target = fn()
    except MachineryError:
        raise
    except Exception as e:  # noqa: BLE001 - classification is the point
        cls = exc_class(e)
        if cls in ("ParameterError", "CalculationError"):
            return {"cls": cls, "why": why_of(e), "target": []}
        return {"cls": "other", "why": cls, "target": []}
    return {"cls": "ok", "why": NA, "target": [str(t) for t in target]}


class World:
    """Fixtures, materialisation of the argument classes, recorders."""

    def __init__(self, tmp):
        import numpy
        import pygaps
        from pygaps.characterisation import alphas_plots, area_bet, area_lang, dr_da_plots, models_hk, models_kelvin, models_thickness
        from pygaps.characterisation import psd_kernel, psd_meso, psd_micro, t_plots
        self.np = numpy
        self.mt, self.mk, self.mh = models_thickness, models_kelvin, models_hk
        self.meso, self.micro, self.kern = psd_meso, psd_micro, psd_kernel
        self.bet, self.lang, self.drda, self.tp, self.al = area_bet, area_lang, dr_da_plots, t_plots, alphas_plots
        pa = [round(0.05 * k, 2) for k in range(1, N_POINTS + 1)]
        base = lambda p: 2 + 3 * p + 4 * p ** 3  # noqa: E731
        la = [base(p) for p in pa]
        pd_ = pa[::-1]
        ld = [base(p) + 0.3 * (1 - abs(2 * p - 1)) for p in pd_]

        def iso(adsorbate, temp, both=True, scale=1.0):
            kw = dict(material="verif_x07", adsorbate=adsorbate, temperature=temp, pressure_mode="relative", loading_basis="molar",
                      loading_unit="mmol", material_basis="mass", material_unit="g")
            if both:
                return pygaps.PointIsotherm(pressure=pa + pd_, loading=[scale * x for x in la + ld], branch=[False] * len(pa) + [True] * len(pd_), **kw)
            return pygaps.PointIsotherm(pressure=pa, loading=[scale * x for x in la], branch="ads", **kw)
        self.iso = iso("N2", 77.355)
        self.iso_ads_only = iso("N2", 77.355, both=False)
        self.ref_same = iso("N2", 77.355, scale=0.5)
        self.ref_other = iso("Ar", 87.3, scale=0.5)
        for name, i in (("iso", self.iso), ("ref_same", self.ref_same)):
            for br in ("ads", "des"):
                if len(i.pressure(branch=br)) != N_POINTS:
                    raise MachineryError(f"fixture {name}: branch {br} does not have {N_POINTS} points")
        self.custom_t = lambda p: 0.4 + numpy.asarray(p, dtype=float)  # noqa: E731
        self.custom_k = lambda p, **kw: -0.95 / numpy.log(numpy.asarray(p, dtype=float))  # noqa: E731
        self.kelvin_args = dict(meniscus_geometry="hemispherical", temperature=77.355, liquid_density=0.806, adsorbate_molar_mass=28.0134,
                                adsorbate_surface_tension=8.88)
        self.hk_full = {"molecular_diameter": 0.3, "polarizability": 1.7e-3, "magnetic_susceptibility": 2e-8, "surface_density": 2.0e19}
        self.ads_full = dict(self.hk_full, molecular_diameter=0.3, polarizability=1.76e-3, magnetic_susceptibility=3.6e-8, surface_density=6.71e18,
                             liquid_density=0.806, adsorbate_molar_mass=28.0134)
        self.tmp = tmp
        self.user_kernel = os.path.join(tmp, "user_kernel.csv")
        with open(self.user_kernel, "w") as f:
            f.write("pressure,0.5,1.0,2.0\n" + "".join(f"{p},{3 * p:.4f},{2 * p:.4f},{p:.4f}\n" for p in [0.01, 0.2, 0.4, 0.6, 0.8, 1.0]))
        self.missing_kernel = os.path.join(tmp, "no-such-kernel.csv")
        self.log = []

    # ---- argument classes
    def p_limits(self, form):
        return {"none": None, "pair": (0.12, 0.62), "lo_only": (0.12, None), "hi_only": (None, 0.62), "reversed": (0.62, 0.12), "equal": (0.3, 0.3),
                "narrow": (0.31, 0.44), "scalar": 0.3, "single": (0.12,)}[form]

    def t_limits(self, form, alpha=False):
        if alpha:
            return {"none": None, "pair": (0.5, 1.5), "lo_only": (0.5, None), "reversed": (1.5, 0.5)}[form]
        return {"none": None, "pair": (0.5, 1.0), "lo_only": (0.5, None), "hi_only": (None, 1.0), "reversed": (1.0, 0.5), "equal": (0.7, 0.7),
                "scalar": 0.7, "single": (0.5,)}[form]

    def branch(self, b):
        return {"ads": "ads", "des": "des", "unknown": "adsorption", "none": None, "des_missing": "des"}[b]

    def pore(self, g):
        return "pyramid" if g == "unknown" else g

    def thickness(self, e):
        return {"unknown": "no such thickness model", "callable": self.custom_t, "isotherm": self.ref_same, "none": None}.get(e, e)

    def kelvin(self, f):
        return {"unknown": "no such kelvin model", "callable": self.custom_k}.get(f, f)

    def hk(self, a):
        if a.startswith("dict_no_"):
            return {k: v for k, v in self.hk_full.items() if k != a[len("dict_no_"):]}
        return {"dict_full": dict(self.hk_full), "dict_extra": dict(self.hk_full, comment=1.0), "dict_empty": {}, "unknown": "Zeolite(XYZ)", "none": None,
                "list": ["Carbon(HK)"]}.get(a, a)

    # ---- identities
    def thk_identity(self, obj, arg):
        if obj is arg and not isinstance(arg, str):
            return ["same", "callable" if callable(obj) else "notcallable"]
        name = getattr(obj, "__name__", None)
        if name and getattr(self.mt, name, None) is obj:
            return [name, "callable" if callable(obj) else "notcallable"]
        return ["wrapped" if callable(obj) else "foreign", "callable" if callable(obj) else "notcallable"]

    def kel_identity(self, func, arg):
        if func is arg and not isinstance(arg, str):
            return "same"
        name = getattr(func, "__name__", None)
        return name if name and getattr(self.mk, name, None) is func else "foreign"

    def hk_identity(self, d):
        for name in dir(self.mh):
            if name.startswith("PROPERTIES_") and getattr(self.mh, name) is d:
                return name
        return "foreign"

    def window(self, op, inv, lim, branch, mn, mx, n=N_POINTS):
        if branch == "none":
            return "unjudged"
        if lim == "none" and op in ("area_BET", "area_langmuir"):
            return "auto"
        mn, mx = int(mn), int(mx)
        lo, hi = mn > 0, mx < n - 1
        return "lohi" if lo and hi else "lo" if lo else "hi" if hi else "all"

    # ---- patching
    def patched(self, patches):
        world = self

        class Ctx:
            def __enter__(self):
                self.saved = [(m, n, m.__dict__.get(n, World)) for m, n, _ in patches]
                for m, n, f in patches:
                    setattr(m, n, f)

            def __exit__(self, *a):
                for m, n, f in self.saved:
                    if f is World:
                        delattr(m, n)
                    else:
                        setattr(m, n, f)
        world.log = []
        return Ctx()

    def through(self, mod, name, note):
        real = getattr(mod, name)

        @functools.wraps(real)
        def f(*a, **k):
            note(self.log, a, k)
            return real(*a, **k)
        return (mod, name, f)

    # ---- caches
    def caches(self):
        tc = sorted(str(k) for k in self.mt._LOADED)
        kc = sorted({os.path.basename(str(k)) for k in self.kern._LOADED})
        return tc, kc

    def clear_caches(self):
        self.mt._LOADED.clear()
        self.kern._LOADED.clear()

    # ================================================================ the operations
    def run(self, i):
        return outcome(lambda: getattr(self, "op_" + i["op"])(i))

    def op_get_thickness_model(self, i):
        arg = self.thickness(i["a"])
        return self.thk_identity(self.mt.get_thickness_model(arg), arg)

    def op_thickness_eval(self, i):
        files, keys = [], []
        real_csv, real_load = self.mt.isotherm_from_csv, self.mt.load_std_isotherm

        def csv(path, *a, **k):
            files.append(os.path.basename(str(path)))
            return real_csv(path, *a, **k)

        def load(name):
            keys.append(name)
            return real_load(name)
        with self.patched([(self.mt, "isotherm_from_csv", csv), (self.mt, "load_std_isotherm", load)]):
            fn = self.mt.get_thickness_model(i["a"])
            val = fn(self.np.array([0.3, 0.6]))
        if len(val) != 2:
            raise MachineryError("thickness model did not return one value per pressure")
        ident = self.thk_identity(fn, i["a"])[0]
        if not keys:
            return [ident, NA, NA] if not files else [ident, NA, files[0]]
        return [ident, "+".join(keys), "cached" if not files else "+".join(files)]

    def op_get_kelvin_model(self, i):
        arg = self.kelvin(i["a"])
        r = self.mk.get_kelvin_model(arg, **self.kelvin_args)
        bound = isinstance(r, functools.partial) and r.keywords == self.kelvin_args and not r.args
        return [self.kel_identity(getattr(r, "func", r), arg), "bound" if bound else "notbound"]

    def op_get_meniscus_geometry(self, i):
        return [self.mk.get_meniscus_geometry(self.branch(i["a"]), self.pore(i["b"]))]

    def op_kelvin_radius(self, i):
        args = {k: v for k, v in self.kelvin_args.items() if k != "meniscus_geometry"}
        men = "flat" if i["b"] == "unknown" else i["b"]
        ref = float(self.mk.kelvin_radius(0.5, "hemispherical", **args))
        if i["a"] == "Kelvin":
            ratio = ref / float(self.mk.kelvin_radius(0.5, men, **args))
            for label, v in (("2", 2.0), ("1", 1.0), ("1/2", 0.5)):
                if abs(ratio - v) < 1e-9:
                    return [label]
            return [f"factor {ratio:.6g}"]
        val = float(self.mk.kelvin_radius_kjs(0.5, men, **args))
        return ["kjs" if abs(val - (ref + 0.3)) < 1e-9 else f"kjs offset {val - ref:.6g}"]

    def op_get_hk_model(self, i):
        arg = self.hk(i["a"])
        r = self.mh.get_hk_model(arg)
        if isinstance(arg, dict):
            return ["same" if r is arg else "foreign"]
        return [self.hk_identity(r)] + [repr(r[k]) for k in ("molecular_diameter", "polarizability", "magnetic_susceptibility", "surface_density")]

    def op_psd_mesoporous(self, i):
        thk, kel = self.thickness(i["e"]), self.kelvin(i["f"])

        def note(name):
            def n(log, a, k):
                log.append((name, a[2], a[3], a[4]))
            return n
        patches = [self.through(self.meso, n, note(n)) for n in ("psd_pygapsdh", "psd_bjh", "psd_dollimore_heal")]
        kw = {}
        if i["c"] != "none":
            kw["meniscus_geometry"] = "flat" if i["c"] == "unknown" else i["c"]
        with self.patched(patches):
            res = self.meso.psd_mesoporous(self.iso, psd_model={"none": None, "unknown": "no such model"}.get(i["a"], i["a"]), pore_geometry=self.pore(i["b"]),
                                           branch=self.branch(i["d"]), thickness_model=thk, kelvin_model=kel, p_limits=self.p_limits(i["g"]), **kw)
            log = list(self.log)
        if len(log) != 1:
            raise MachineryError(f"psd_mesoporous returned after {len(log)} kernel calls")
        name, pore, t_model, k_model = log[0]
        bound = isinstance(k_model, functools.partial)
        return [name, pore] + self.thk_identity(t_model, thk) + [self.kel_identity(k_model.func, kel) if bound else "notpartial",
                                                                 str(k_model.keywords.get("meniscus_geometry")) if bound else NA,
                                                                 self.window("psd_mesoporous", i, i["g"], i["d"], *res["limits"])]

    def _solver_patches(self):
        def widths(n):
            return [1.0 + 0.1 * k for k in range(n)]

        def hk(pressure, hk_fun, bound, geo):
            self.log.append(("_solve_hk",))
            return widths(len(pressure))

        def cy(pressure, loading, hk_fun, bound, geo):
            self.log.append(("_solve_hk_cy",))
            return widths(len(pressure))
        return [(self.micro, "_solve_hk", hk), (self.micro, "_solve_hk_cy", cy)]

    def op_psd_microporous(self, i):
        mat = self.hk(i["d"])
        ads = {"none": None, "dict_full": dict(self.ads_full), "dict_missing": {k: v for k, v in self.ads_full.items() if k != "polarizability"}}[i["e"]]

        def note(name):
            def n(log, a, k):
                log.append((name, a[3], a[4], a[5], k.get("use_cy")))
            return n
        patches = [self.through(self.micro, n, note(n)) for n in ("psd_horvath_kawazoe", "psd_horvath_kawazoe_ry")]
        with self.patched(patches + self._solver_patches()):
            res = self.micro.psd_microporous(self.iso, psd_model={"none": None, "unknown": "no such model"}.get(i["a"], i["a"]), pore_geometry=self.pore(i["b"]),
                                             branch=self.branch(i["c"]), material_model=mat, adsorbate_model=ads, p_limits=self.p_limits(i["g"]))
            log = list(self.log)
        low = [x for x in log if x[0].startswith("psd_")]
        sol = [x[0] for x in log if x[0].startswith("_solve")]
        if len(low) != 1:
            raise MachineryError(f"psd_microporous returned after {len(low)} low-level calls")
        name, pore, ads_p, mat_p, use_cy = low[0]
        mat_id = ("same" if mat_p is mat else "foreign") if isinstance(mat, dict) else self.hk_identity(mat_p)
        ads_id = ("same" if ads_p is ads else "foreign") if ads is not None else ("derived" if isinstance(ads_p, dict) and set(ads_p) == set(self.ads_full) else "foreign")
        return [name, "cy" if use_cy is True else "nocy" if use_cy is False else "use_cy=" + repr(use_cy), pore, mat_id, ads_id,
                "+".join(sol) if sol else "nosolver", self.window("psd_microporous", i, i["g"], i["c"], *res["limits"])]

    def op_hk_lowlevel(self, i):
        p = self.np.array([0.05, 0.1, 0.15, 0.2, 0.25])
        l = self.np.array([2.1, 2.3, 2.5, 2.6, 2.7])
        with self.patched(self._solver_patches()):
            getattr(self.micro, i["a"])(p, l, 77.355, self.pore(i["b"]), dict(self.ads_full), self.mh.PROPERTIES_CARBON, use_cy=i["c"] == "cy")
            sol = [x[0] for x in self.log]
        return ["+".join(sol) if sol else "nosolver"]

    def op_psd_dft(self, i):
        kernel = {"none": None, "internal": "DFT-N2-77K-carbon-slit", "path_ok": self.user_kernel, "path_missing": self.missing_kernel}[i["a"]]
        opened = []
        real_load = self.kern._load_kernel

        def rec_open(path, *a, **k):
            opened.append(os.path.basename(str(path)))
            return open(path, *a, **k)

        def fit(pressure, loading, kernel_path, bspline_order=2):
            self.log.append(("psd_dft_kernel_fit", os.path.basename(str(kernel_path))))
            k = real_load(kernel_path)          # first thing the real fit does with the path
            if not k:
                raise MachineryError("empty kernel")
            w = self.np.array([0.5, 1.0, 2.0])
            return w, w * 0, w * 0, self.np.asarray(loading) * 0
        with self.patched([(self.kern, "psd_dft_kernel_fit", fit), (self.kern, "open", rec_open)]):
            res = self.kern.psd_dft(self.iso, kernel=kernel, branch=self.branch(i["b"]), p_limits=self.p_limits(i["g"]))
            log = list(self.log)
        if len(log) != 1:
            raise MachineryError("psd_dft returned without a kernel fit")
        return [log[0][0], log[0][1], "loaded" if opened else "cached", self.window("psd_dft", i, i["g"], i["b"], *res["limits"])]

    def _area(self, i, fn, kind_of, key):
        iso = self.iso_ads_only if i["a"] == "des_missing" else self.iso
        res = fn(iso, branch=self.branch(i["a"]), p_limits=self.p_limits(i["g"]))
        return [kind_of(res), self.window(i["op"], i, i["g"], i["a"], *res[key])]

    def op_area_BET(self, i):
        return self._area(i, self.bet.area_BET, lambda r: "bet" if "c_const" in r and "bet_slope" in r else "foreign", "p_limit_indices")

    def op_area_langmuir(self, i):
        return self._area(i, self.lang.area_langmuir, lambda r: "langmuir" if "langmuir_const" in r else "foreign", "p_limit_indices")

    def op_dr_plot(self, i):
        return self._area(i, self.drda.dr_plot, lambda r: "exp_fitted" if "exponent" in r else "exp_given", "p_limits")

    def op_da_plot(self, i):
        exp = {"none": None, "0": 0, "2": 2, "1.5": 1.5, "neg": -1.0, "5": 5}[i["a"]]
        res = self.drda.da_plot(self.iso, exp=exp, branch=self.branch(i["b"]), p_limits=self.p_limits(i["g"]))
        return ["fitted" if "exponent" in res else "given", self.window("da_plot", i, i["g"], i["b"], *res["p_limits"])]

    def op_t_plot(self, i):
        thk = self.thickness(i["a"])
        patches = [self.through(self.tp, "t_plot_raw", lambda log, a, k: log.append(("raw", a[2]))),
                   self.through(self.tp, "t_plot_parameters", lambda log, a, k: log.append(("section", len(a[2]))))]
        with self.patched(patches):
            self.tp.t_plot(self.iso, thickness_model=thk, branch=self.branch(i["b"]), t_limits=self.t_limits(i["g"]))
            log = list(self.log)
        raw = [x for x in log if x[0] == "raw"]
        sections = [x[1] for x in log if x[0] == "section"]
        if len(raw) != 1:
            raise MachineryError("t_plot returned without t_plot_raw")
        sel = "auto" if i["g"] == "none" else ("sel" if sections and all(s > 0 for s in sections) else "empty")
        return self.thk_identity(raw[0][1], thk) + [sel]

    def op_alpha_s(self, i):
        ref = {"none": None, "notiso": {"pressure": [0.1, 0.2], "loading": [1, 2]}, "same_adsorbate": self.ref_same, "other_adsorbate": self.ref_other}[i["a"]]
        area = {"none": None, "BET": "BET", "bet": "bet", "Langmuir": "Langmuir", "unknown": "DFT", "number": 123.0, "bool": True, "list": [100.0]}[i["b"]]
        rp = {"0.4": 0.4, "0": 0, "1": 1, "1.5": 1.5, "neg": -0.2}[i["c"]]
        areas = {}

        def area_fn(mod, name):
            real = getattr(mod, name)

            def f(*a, **k):
                r = real(*a, **k)
                areas[name] = (a[0], r.get("area"))
                return r
            return (self.al, name, f)
        patches = [area_fn(self.al, "area_BET"), area_fn(self.al, "area_langmuir"),
                   self.through(self.al, "alpha_s_raw", lambda log, a, k: log.append(("raw", a[3]))),
                   self.through(self.al, "alpha_s_plot_parameters", lambda log, a, k: log.append(("section", len(a[2]))))]
        with self.patched(patches):
            self.al.alpha_s(self.iso, ref, reference_area=area, reducing_pressure=rp, branch=self.branch(i["d"]), branch_ref=self.branch(i["e"]),
                            t_limits=self.t_limits(i["g"], alpha=True))
            log = list(self.log)
        raw = [x for x in log if x[0] == "raw"]
        sections = [x[1] for x in log if x[0] == "section"]
        if len(raw) != 1:
            raise MachineryError("alpha_s returned without alpha_s_raw")
        used = raw[0][1]
        if len(areas) == 1 and list(areas.values())[0][0] is ref and list(areas.values())[0][1] == used:
            src = list(areas)[0]
        elif not areas and used == area and not isinstance(area, (str, bool)):
            src = "given"
        else:
            src = "foreign"
        sel = "auto" if i["g"] == "none" else ("sel" if sections and all(s > 0 for s in sections) else "empty")
        return [src, sel]


REPRO = {
    "IsothermThicknessModelUnsupported": "pgc.t_plot(iso, thickness_model=other_iso)  # documented ('pass the Isotherm object'): TypeError 'PointIsotherm' object is not callable; get_thickness_model(iso) returns the isotherm itself",
    "KelvinRadiusUnknownMeniscusUnboundLocal": "models_kelvin.kelvin_radius(0.5, 'flat', 77, 0.8, 28, 8.9)  # UnboundLocalError (geometry_factor), not ParameterError",
    "HalfopenCylinderAdvertisedButUnsupported": "pgc.psd_mesoporous(iso, pore_geometry='halfopen-cylinder')  # listed in 'Available geometries', passes validation, then ParameterError('Unknown pore geometry.') from psd_pygapsdh; no psd_model supports it",
    "MalformedLimitsLeakPythonError": "pgc.area_BET(iso, p_limits=0.3) -> TypeError; p_limits=(0.1,) -> IndexError (same for area_langmuir, dr/da_plot, psd_*, t_plot, alpha_s)",
    "OneSidedTLimitsLeakTypeError": "pgc.t_plot(iso, t_limits=(None, 1.0))  # TypeError ('>' float/NoneType); every p_limits accepts a None bound, t_limits of t_plot/alpha_s does not",
    "BranchNoneNotRefused": "pgc.area_langmuir(iso, branch=None)  # accepted: fits adsorption AND desorption points concatenated (psd_mesoporous/psd_microporous refuse branch=None)",
    "UnknownKernelLeaksFileNotFound": "pgc.psd_dft(iso, kernel='DFT-N2-77K-carbon')  # FileNotFoundError, not ParameterError listing the available kernels",
    "DAExponentZeroDivision": "pgc.da_plot(iso, exp=0)  # ZeroDivisionError: 0 counts as 'not given' for the result dict but is passed on as the exponent",
    "HKLowLevelUnknownGeometrySilent": "psd_micro.psd_horvath_kawazoe(p, n, 77, 'pyramid', ads, mat)  # returns three empty arrays instead of ParameterError",
}


def main(tier, seed):
    quiet_pygaps()
    run = Run(PID, tier, seed, "model_checking")
    rng = random.Random(seed)
    res = tlc.must_pass("LookupMC", timeout=500, coverage=True, workers=8)
    dead = [a for a, (d, t) in res["coverage"].items() if a.startswith("LookupMC!") and t == 0]
    actions = {a.split("!")[1]: t for a, (d, t) in res["coverage"].items() if a.startswith("LookupMC!") and a.split("!")[1][0].isupper()}
    if dead or len(actions) < 18:
        raise MachineryError(f"LookupMC: dead or missing actions: {dead} / {sorted(actions)}")
    run.set(states=res["distinct"], transitions=res["states_generated"], tlc_actions_taken=actions,
            tlc_invariants=["TypeOK", "OnlyNamedDeviations", "NoClassNoDivergence", "SpecTotal", "Decisive", "CalcErrorOnlyForLimits", "MesoDispatchSane",
                            "CacheMonotone", "CacheOnlyByItsOperation", "LoadIffNotCached", "ASSUME MeniscusTableSane", "ASSUME every deviation class witnessed"])

    # ---- which invocations
    small = [op for op in DOM if op not in ("psd_mesoporous", "psd_microporous", "alpha_s", "thickness_eval", "psd_dft")]
    invs = [i for op in small for i in invocations(op)]
    big = {"psd_mesoporous": (lambda i: i["g"] in ("none", "pair") and i["e"] == "Halsey", 2500),
           "psd_microporous": (lambda i: i["g"] == "none" and i["e"] == "none", 1500),
           "alpha_s": (lambda i: i["g"] == "none" and i["e"] == "ads", 800)}
    total = len(invs)
    for op, (core, extra) in big.items():
        allv = invocations(op)
        total += len(allv)
        if tier == "thorough":
            invs += allv
        else:
            rest = [i for i in allv if not core(i)]
            invs += [i for i in allv if core(i)] + rng.sample(rest, min(extra, len(rest)))
    rng.shuffle(invs)
    # stateful operations: sequences on whatever cache state the previous step left (cleared now and then)
    evals, dfts = invocations("thickness_eval"), invocations("psd_dft")
    total += len(evals) + len(dfts)
    seqs = []
    for k in range(12 if tier != "thorough" else 60):
        seqs.append([rng.choice(evals) for _ in range(4)])
    for perm in itertools.permutations(evals, 2):
        seqs.append(list(perm) + [perm[0]])
    d1 = list(dfts)
    rng.shuffle(d1)
    half = len(d1) // 2
    seqs += [d1[:half] + [rng.choice(evals)] + d1[:20], d1[half:] + d1[half:half + 20]]

    tmp = tempfile.mkdtemp(prefix="x07-")
    records = []
    try:
        w = World(tmp)
        w.clear_caches()

        def step(i):
            tc, kc = w.caches()
            obs = w.run(i)
            tc2, kc2 = w.caches()
            records.append({"inv": i, "tc": tc, "kc": kc, "obs": obs, "tc2": tc2, "kc2": kc2})
        for i in invs:
            step(i)
        for s in seqs:
            w.clear_caches()
            for i in s:
                step(i)
        w.clear_caches()
    finally:
        shutil.rmtree(tmp, ignore_errors=True)

    answers = tlc.oracle("LookupOracle", records, timeout=900, chunk=30000)
    devs = {}
    hist = {}
    for r, a in zip(records, answers):
        i = r["inv"]
        key = tuple(i[k] for k in ("op", "a", "b", "c", "d", "e", "f", "g"))
        run.count(key + (tuple(r["tc"]), tuple(r["kc"])), nontrivial=r["obs"]["cls"] in ("ok", "CalculationError") or a["verdict"] != "conforms")
        h = hist.setdefault(i["op"], {})
        h[r["obs"]["cls"]] = h.get(r["obs"]["cls"], 0) + 1
        if a["verdict"] == "machinery":
            raise MachineryError(f"driver and model disagree about the invocation space: {i}")
        if a["verdict"] == "known-deviation":
            devs[a["dev"]] = devs.get(a["dev"], 0) + 1
            continue
        if a["ok"]:
            continue
        obs, impl = r["obs"], a["impl"]
        diff = ""
        if obs["cls"] == "ok" and impl["cls"] == "ok":
            diff = ",".join(str(k) for k in range(max(len(obs["target"]), len(impl["target"])))
                            if k >= len(obs["target"]) or k >= len(impl["target"]) or obs["target"][k] != impl["target"][k])
        run.violation({"site": i["op"], "clause": a["clause"], "observed": obs["cls"] + (":" + obs["why"] if obs["cls"] != "ok" else ""),
                       "transcribed": impl["cls"] + (":" + impl["why"] if impl["cls"] != "ok" else ""), "target_slots_differing": diff},
                      {"invocation": i, "caches_before": [r["tc"], r["kc"]], "caches_after": [r["tc2"], r["kc2"]], "observed": obs,
                       "documentation_allows": a["allowed"], "impl_transcription": impl})
    run.set(deviation_classes_observed=devs, outcomes_by_operation=hist)
    for c in sorted(devs):
        run.note(f"OBSERVATION {c} ({devs[c]} invocation(s)): {REPRO.get(c, '')}")
    run.add("traces_validated_against_impl", len(records))
    for r, a in list(zip(records, answers))[:3]:
        run.sample({"invocation": r["inv"], "observed": r["obs"], "verdict": a["verdict"]})
    run.set(exhaustive=tier == "thorough", abstract_invocations_total=total,
            rule="abstract invocations of 16 operations (argument classes per slot, see Lookup!ArgDom): thorough = all of them; quick = all of the 13 small operations, "
                 "the success/core sub-grid of psd_mesoporous / psd_microporous / alpha_s plus a seeded sample of the rest; the two cache-dependent operations are replayed "
                 "as sequences on the cache state the previous step left; distinct = distinct (invocation, cache state)")
    return run.finish()
