"""Shared pieces of the C14 / C16 drivers (linearised methods, mesopore PSD):
rational factor lists handed back by the TLA+ oracles, order-preserving integer encodings,
fixtures."""
from fractions import Fraction

from .common import MachineryError, exc_class

NONE = -1     # limit omitted           (spec/Selection.tla)
AUTO = -2     # no limits argument at all
NA18 = Fraction(602214076, 1000)   # N_A * 1e-18, exact (CODATA 2019 definition of the mole)


def frac(nd):
    return Fraction(int(nd[0]), int(nd[1]))


def prod(factors):
    """value of a factor list <<r1, r2, ...>> returned by the spec (exact)."""
    v = Fraction(1)
    for f in factors:
        v *= frac(f)
    return v


def renc(x):
    x = Fraction(x)
    return [x.numerator, x.denominator]


def ranks(values, *limits):
    """Order-preserving integer encoding of floats (grid values and limits): the specification
    only uses <, = between them.  Returns (grid_ranks, limit_ranks)."""
    allv = sorted(set([float(v) for v in values] + [float(l) for l in limits if l is not None]))
    idx = {v: i + 1 for i, v in enumerate(allv)}
    return [idx[float(v)] for v in values], [NONE if l is None else idx[float(l)] for l in limits]


def outcome(fn, pick):
    """Run fn(); classify as ('win', mn, mx) / ('refuse', 0, 0) / ('error', 0, 0)."""
    try:
        res = fn()
    except Exception as e:  # noqa: BLE001 - classification is the point
        cls = exc_class(e)
        if cls == "CalculationError":
            return ["refuse", 0, 0], cls, None
        return ["error", 0, 0], cls, None
    mn, mx = pick(res)
    return ["win", int(mn), int(mx)], None, res


def wrong_of(obs, cls, answer):
    """Coarse description of how an observed window leaves the allowed set."""
    allowed = answer["allowed"]
    if obs[0] == "error":
        return "exception:" + str(cls)
    wins = [a for a in allowed if a[0] == "win"]
    if obs[0] == "refuse":
        return "refused although three or more points are inside the limits"
    if not wins:
        return "fitted although fewer than three points are inside the limits"
    dmn = min(abs(obs[1] - a[1]) for a in wins)
    dmx = min(abs(obs[2] - a[2]) for a in wins)
    best = min(wins, key=lambda a: abs(obs[1] - a[1]) + abs(obs[2] - a[2]))
    parts = []
    if obs[1] != best[1]:
        parts.append("first index %+d" % (obs[1] - best[1]))
    if obs[2] != best[2]:
        parts.append("last index %+d" % (obs[2] - best[2]))
    return "window is not the set of points inside the limits (" + ", ".join(parts) + ")" if (dmn or dmx or parts) else "window not allowed"


class TableModel:
    """A callable model (thickness / Kelvin radius / alpha) defined by an exact lookup table on the
    pressure grid k/scale."""

    def __init__(self, table, scale):
        self.table = {int(k): float(v) for k, v in table.items()}
        self.scale = scale

    def __call__(self, pressure, **kwargs):
        import numpy
        p = numpy.atleast_1d(numpy.asarray(pressure, dtype=float))
        out = numpy.empty_like(p)
        for i, x in enumerate(p):
            k = int(round(x * self.scale))
            if abs(k / self.scale - x) > 1e-12 or k not in self.table:
                raise MachineryError(f"table model called off-grid at {x!r}")
            out[i] = self.table[k]
        return out


class ExactModel:
    """A callable model given by exact values at known abscissae (keyed by the float of the abscissa)."""

    def __init__(self, pairs=()):
        self.lookup = {}
        self.extend(pairs)

    def extend(self, pairs):
        for x, v in pairs:
            self.lookup[float(x)] = float(v)

    def __call__(self, pressure, **kwargs):
        import numpy
        p = numpy.asarray(pressure, dtype=float)
        flat = numpy.atleast_1d(p).ravel()
        try:
            out = numpy.array([self.lookup[float(x)] for x in flat])
        except KeyError as e:
            raise MachineryError(f"exact model called off-grid at {e}") from None
        return out.reshape(numpy.atleast_1d(p).shape)


_CUSTOM = {}


def stored_adsorbate(name, **props):
    """A backend-less adsorbate with exactly the given (rational-valued) properties, registered in
    pygaps.ADSORBATE_LIST of this process so that isotherms can refer to it by name."""
    import pygaps
    if name in _CUSTOM:
        return _CUSTOM[name]
    for a in list(pygaps.ADSORBATE_LIST):
        if a.name == name:
            pygaps.ADSORBATE_LIST.remove(a)
    ads = pygaps.Adsorbate(name, store=True, **{k: float(v) for k, v in props.items()})
    _CUSTOM[name] = ads
    return ads


def point_isotherm(pressure, loading, adsorbate="N2", temperature=77.355, loading_basis="molar", loading_unit="mol",
                   temperature_unit="K", pressure_mode="relative"):
    """temperature is given in K; with temperature_unit='°C' the isotherm STORES it in Celsius, with
    pressure_mode='relative%' it stores percentages (the analyses must see the same physical isotherm)."""
    import pygaps
    temp = temperature if temperature_unit == "K" else temperature - 273.15
    pres = list(pressure) if pressure_mode == "relative" else [float(x) * 100 for x in pressure]
    return pygaps.PointIsotherm(
        pressure=pres, loading=list(loading), material="verif_mat", adsorbate=adsorbate,
        temperature=temp, temperature_unit=temperature_unit, pressure_mode=pressure_mode, loading_basis=loading_basis, loading_unit=loading_unit,
        material_basis="mass", material_unit="g")
