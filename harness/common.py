"""Shared plumbing of the pyGAPS verification harness.

* picks the source tree under test (VERIF_REPO, default /repo) and puts it first on sys.path
* Run: collects coverage counters, judges violations against known_findings.json,
  writes replays and the evidence file, produces the exit code.
"""
import hashlib
import json
import os
import sys
import time

VERIF = os.path.dirname(os.path.dirname(os.path.abspath(__file__)))
REPO = os.environ.get("VERIF_REPO", "/repo")
SRC = os.path.join(REPO, "src")
if SRC not in sys.path:
    sys.path.insert(0, SRC)
os.environ.setdefault("MPLBACKEND", "Agg")


def quiet_pygaps():
    """pyGAPS logs backend fallbacks to stdout; keep check output readable."""
    import logging
    import warnings
    import pygaps.logging  # noqa: F401  (sets DEBUG at import; override afterwards)
    logging.getLogger("pygaps").setLevel(logging.CRITICAL)
    warnings.filterwarnings("ignore")


class MachineryError(Exception):
    """The check itself could not run (exit 2); never a verdict about pyGAPS."""


def jsonable(x):
    """Best-effort conversion of harness values to plain JSON (numpy, tuples, sets)."""
    try:
        import numpy
    except Exception:  # pragma: no cover
        numpy = None
    if isinstance(x, dict):
        return {str(k): jsonable(v) for k, v in x.items()}
    if isinstance(x, (list, tuple)):
        return [jsonable(v) for v in x]
    if isinstance(x, (set, frozenset)):
        return sorted((jsonable(v) for v in x), key=repr)
    if numpy is not None:
        if isinstance(x, numpy.ndarray):
            return [jsonable(v) for v in x.tolist()]
        if isinstance(x, numpy.generic):
            return jsonable(x.item())
    if isinstance(x, float):
        if x != x:
            return "NaN"
        if x in (float("inf"), float("-inf")):
            return "inf" if x > 0 else "-inf"
        return x
    if isinstance(x, (str, int, bool)) or x is None:
        return x
    return repr(x)


def load_findings():
    path = os.path.join(VERIF, "known_findings.json")
    if not os.path.exists(path):
        return {"findings": [], "fixed": []}
    with open(path) as f:
        return json.load(f)


def _match(entry_match, sig):
    """An entry matches when every key it names is present in sig with an equal value
    (a list in the entry means 'one of')."""
    for k, v in entry_match.items():
        if k not in sig:
            return False
        if isinstance(v, list):
            if sig[k] not in v:
                return False
        elif sig[k] != v:
            return False
    return True


class Run:
    def __init__(self, property_id, tier, seed, level):
        self.pid = property_id
        self.tier = tier
        self.seed = int(seed)
        self.level = level
        self.t0 = time.time()
        self.cov = {
            "evaluations": 0,
            "distinct_nontrivial": 0,
            "rule": "",
            "samples": [],
        }
        self._distinct = set()
        self.assumptions = []
        self.violations = []
        self.known_hits = {}
        self.notes = []
        self._findings = [e for e in load_findings().get("findings", []) if e.get("property") == property_id]
        self.max_reports = int(os.environ.get("VERIF_MAX_REPORTS", "25"))

    # ---- coverage
    def count(self, key=None, nontrivial=True, n=1):
        """One evaluation; `key` identifies the case for the distinct count."""
        self.cov["evaluations"] += n
        if nontrivial and key is not None:
            self._distinct.add(key if isinstance(key, (str, int, tuple)) else json.dumps(jsonable(key), sort_keys=True))

    def sample(self, s, limit=6):
        if len(self.cov["samples"]) < limit:
            self.cov["samples"].append(jsonable(s))

    def set(self, **kw):
        self.cov.update(kw)

    def add(self, key, n=1):
        self.cov[key] = self.cov.get(key, 0) + n

    def note(self, s):
        self.notes.append(s)

    def assume(self, s):
        if s not in self.assumptions:
            self.assumptions.append(s)

    # ---- verdicts
    def violation(self, sig, detail=None):
        """Report an observed step the specification does not allow.

        sig: flat dict describing site / configuration class / observed wrong behaviour;
        matched against known_findings.json.  Returns 'known' or 'violation'."""
        sig = jsonable(dict(sig))
        sig.setdefault("property", self.pid)
        for e in self._findings:
            if _match(e.get("match", {}), sig):
                hit = self.known_hits.setdefault(e["id"], {"entry": e, "count": 0, "first": sig})
                hit["count"] += 1
                return "known"
        self.violations.append({"sig": sig, "detail": jsonable(detail)})
        return "violation"

    def finish(self):
        wall = time.time() - self.t0
        self.cov["distinct_nontrivial"] = max(self.cov.get("distinct_nontrivial", 0), len(self._distinct))
        for fid, h in sorted(self.known_hits.items()):
            print(f"KNOWN-FINDING: property={self.pid} {fid}: {h['entry'].get('what', '')} (matched {h['count']} observed case(s))")
        self.cov["known_findings_matched"] = {k: v["count"] for k, v in self.known_hits.items()}
        if self.notes:
            self.cov["notes"] = self.notes[:50]
        # replays
        rdir = os.environ.get("VERIF_REPLAY_DIR") or os.path.join(VERIF, "replays")
        os.makedirs(rdir, exist_ok=True)
        seen = set()
        reported = 0
        only = os.environ.get("VERIF_REPLAY_SIG")
        for v in self.violations:
            key = json.dumps(v["sig"], sort_keys=True)
            if only and key != only:
                continue
            if key in seen:
                continue
            seen.add(key)
            if reported >= self.max_reports:
                continue
            h = hashlib.sha1(key.encode()).hexdigest()[:10]
            path = os.path.join(rdir, f"{self.pid}-{h}.json")
            with open(path, "w") as f:
                json.dump({"property": self.pid, "tier": self.tier, "seed": self.seed, **v}, f, indent=1, sort_keys=True)
            print(f"VIOLATION property={self.pid} replay={path}")
            print("  " + key[:600])
            reported += 1
        if len(seen) > reported:
            print(f"  ... {len(seen) - reported} further distinct violation signature(s) not written out")
        ev = {
            "property_id": self.pid,
            "tier": self.tier,
            "seed": self.seed,
            "level": self.level,
            "coverage": jsonable(self.cov),
            "assumptions": self.assumptions,
            "wall_s": round(wall, 2),
            "violations": len(seen),
        }
        edir = os.environ.get("VERIF_EVIDENCE_DIR") or os.path.join(VERIF, "evidence")
        os.makedirs(edir, exist_ok=True)
        with open(os.path.join(edir, f"{self.pid}.json"), "w") as f:
            json.dump(ev, f, indent=1, sort_keys=True)
        status = "FAIL" if seen else "ok"
        print(f"[{self.pid}] {status}: tier={self.tier} seed={self.seed} evaluations={self.cov['evaluations']} "
              f"distinct_nontrivial={self.cov['distinct_nontrivial']} violations={len(seen)} "
              f"known={sum(h['count'] for h in self.known_hits.values())} wall={wall:.1f}s")
        return 1 if seen else 0


def relerr(a, b):
    a = float(a)
    b = float(b)
    if a == b:
        return 0.0
    d = max(abs(a), abs(b))
    if d == 0:
        return 0.0
    return abs(a - b) / d


def exc_class(e):
    """Classify an exception the way the properties talk about them."""
    import pygaps.utilities.exceptions as pe
    for name in ("ParameterError", "CalculationError", "ParsingError", "GraphingError"):
        cls = getattr(pe, name, None)
        if cls is not None and isinstance(e, cls):
            return name
    return type(e).__name__
