"""Encoders between Python numbers and the TLA+ number libraries (spec/DecFloat.tla, spec/Rat.tla)."""
import math
from fractions import Fraction


def dec_enc(x):
    """float -> [m, e] with 10^7 <= |m| < 10^8 (or [0, 0]); value = m * 10^e."""
    x = float(x)
    if x == 0 or not math.isfinite(x):
        if x != 0:
            raise ValueError(f"cannot encode {x}")
        return [0, 0]
    e = math.floor(math.log10(abs(x))) - 7
    m = int(round(x / 10.0 ** e)) if abs(e) < 300 else int(round(x * 10.0 ** (-e)))
    if abs(m) >= 10 ** 8:
        m = int(round(m / 10))
        e += 1
    if abs(m) < 10 ** 7:
        m = m * 10
        e -= 1
    return [m, e]


def dec_dec(me):
    return me[0] * 10.0 ** me[1]


def rat_enc(fr):
    fr = Fraction(fr)
    return [fr.numerator, fr.denominator]


def rat_dec(nd):
    return Fraction(nd[0], nd[1])
