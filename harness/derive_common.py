"""World of real isotherms for X04 (derivation constructors): materialises the abstract steps of
spec/Derive.tla on real pyGAPS objects and projects the abstract state (tokens + identities) after every step.

Nothing here judges: the records go to spec/DeriveOracle.tla (Derive!Judge)."""
import math

import numpy
import pandas

from .common import MachineryError, exc_class

NIL = "none"
ABSENT_OBJ = {"cls": "absent", "lab": {"p": NIL, "l": NIL, "m": NIL}, "tu": NIL, "tv": NIL, "ads": NIL, "mat": 0, "meta": [], "pref": 0,
              "pl": NIL, "bm": NIL, "ex": NIL, "keys": NIL, "dref": 0, "mname": NIL, "mbr": NIL, "mcalc": NIL, "msrc": NIL, "mpar": NIL}
ABSENT_CELL = {"name": NIL, "reg": False, "props": []}

ROUTE_SITE = {"PFI": "PointIsotherm.from_isotherm", "PFM": "PointIsotherm.from_modelisotherm", "MFP": "ModelIsotherm.from_pointisotherm",
              "RT": "to_dict + constructor round trip", "Convert": "convert_*", "SetMeta": "properties[key] = value", "DelMeta": "del properties[key]",
              "MutMeta": "in-place change of a metadata value", "EditMat": "material.properties[key] = value", "Register": "Material(store=True)", "Drop": "del"}

# ---------------------------------------------------------------- concrete universes
P_CYCLE = [("absolute", "bar"), ("relative%", None), ("absolute", "kPa"), ("relative", None), ("absolute", "torr")]
L_CYCLE = [("molar", "mmol"), ("percent", None), ("mass", "mg"), ("volume_liquid", "cm3"), ("fraction", None), ("molar", "cm3(STP)")]
M_CYCLE = [("mass", "g"), ("volume", "cm3"), ("molar", "mmol"), ("mass", "kg")]
M_CYCLE_BARE = [("mass", "g"), ("mass", "kg"), ("mass", "mg")]
REPS = {
    "default": dict(p=("absolute", "bar"), l=("molar", "mmol"), m=("mass", "g")),
    "relative_percent_volume": dict(p=("relative%", None), l=("percent", None), m=("volume", "cm3")),
    "kPa_mass_molar": dict(p=("absolute", "kPa"), l=("mass", "mg"), m=("molar", "mmol")),
    "relative_liquid_kg": dict(p=("relative", None), l=("volume_liquid", "cm3"), m=("mass", "kg")),
    "torr_stp_g": dict(p=("absolute", "torr"), l=("molar", "cm3(STP)"), m=("mass", "g")),
}
T_KELVIN = 77.35

# the stored example data: an adsorption branch and a desorption branch with hysteresis, not exactly any model
_PA = [0.01, 0.02, 0.04, 0.07, 0.1, 0.15, 0.2, 0.3, 0.45, 0.6, 0.8]
_PD = [0.7, 0.5, 0.35, 0.25, 0.12, 0.06, 0.03]


def example_data(with_des=True):
    pa = list(_PA)
    la = [5 * 3 * p / (1 + 3 * p) * (1 + 0.012 * math.sin(7 * i)) for i, p in enumerate(pa)]
    if not with_des:
        return pa, la, [0] * len(pa)
    pd_ = list(_PD)
    ld = [5 * 4 * p / (1 + 4 * p) * (1 + 0.009 * math.cos(5 * i)) for i, p in enumerate(pd_)]
    return pa + pd_, la + ld, [0] * len(pa) + [1] * len(pd_)


# data a caller hands to from_isotherm (numbers are read in the template's labels)
GIVEN = [
    dict(p=[0.11, 0.32, 0.61, 0.93, 0.52, 0.27], l=[1.1, 2.2, 3.1, 4.2, 3.7, 2.3], e=[9.0, 8.0, 7.0, 6.0, 5.0, 4.0], marks=[0, 0, 1, 1, 1, 1]),
    dict(p=[0.2, 0.5, 0.7, 0.4], l=[0.7, 1.4, 1.9, 1.5], e=[1.5, 2.5, 3.5, 4.5], marks=[1, 1, 1, 1]),
    dict(p=[0.05, 0.15, 0.35, 0.65, 0.85], l=[0.4, 1.0, 1.9, 2.6, 2.9], e=[0.1, 0.2, 0.3, 0.4, 0.5], marks=[0, 0, 0, 0, 0]),
]


def own_guess(p):
    """The branch marks the documentation promises for unmarked data: adsorption up to the pressure maximum, desorption after it."""
    imax = max(range(len(p)), key=lambda i: p[i])
    return [0 if i <= imax else 1 for i in range(len(p))]


def marks_token(marks):
    m = [int(bool(x)) for x in marks]
    if all(x == 0 for x in m):
        return "ads"
    if all(x == 1 for x in m):
        return "des"
    return "mix:" + "".join(map(str, m))


def vtok(v):
    if isinstance(v, float):
        return repr(round(v, 12))
    if isinstance(v, numpy.ndarray):
        return "ndarray" + repr(v.tolist())
    return repr(v)


def is_mutable(v):
    return isinstance(v, (list, dict, set, numpy.ndarray, pandas.DataFrame, pandas.Series))


class Interner:
    """float arrays -> token; equal within 1e-9 relative means the same token"""

    def __init__(self, prefix):
        self.prefix, self.items = prefix, []

    def tok(self, arrays):
        arrs = [numpy.asarray(a, dtype=float).ravel() for a in arrays]
        for i, known in enumerate(self.items):
            if len(known) == len(arrs) and all(k.shape == a.shape and numpy.allclose(k, a, rtol=1e-9, atol=1e-300, equal_nan=True) for k, a in zip(known, arrs)):
                return f"{self.prefix}{i}"
        self.items.append(arrs)
        return f"{self.prefix}{len(self.items) - 1}"


class Ids:
    """Python object identity -> small integer (objects are kept alive so that ids are never reused)"""

    def __init__(self):
        self.objs = []

    def id(self, o):
        for i, k in enumerate(self.objs):
            if k is o:
                return i + 1
        self.objs.append(o)
        return len(self.objs)


class World:
    def __init__(self, tag):
        import pygaps
        self.pg = pygaps
        self.tag = tag
        self.slots = {1: None, 2: None, 3: None}
        self.keep = []
        self.cells, self.prefs, self.drefs, self.vrefs = Ids(), Ids(), Ids(), Ids()
        self.data, self.pars, self.ranges = Interner("d"), Interner("q"), Interner("r")
        self.extras = {}
        self.witness = {}          # id(model object) -> (pressure, loading) the prescription says it was fitted to
        self.nreg = 0

    # ------------------------------------------------------------ fixtures
    def material_arg(self, kind):
        """what the creator of the first template passes as `material`"""
        name = f"x04_{self.tag}_{kind}"
        if kind == "registered":
            self.pg.Material(name, store=True, density=2.2, molar_mass=80.5, comment="stored")
            return name
        if kind == "unregistered_with_properties":
            return {"name": name, "density": 1.9, "molar_mass": 61.25, "batch": "B7"}
        return name

    def cleanup(self):
        ml = self.pg.MATERIAL_LIST
        for m in [m for m in ml if str(m.name).startswith(f"x04_{self.tag}_")]:
            ml.remove(m)

    def labels_kw(self, rep, tu):
        r = REPS[rep]
        return dict(pressure_mode=r["p"][0], pressure_unit=r["p"][1], loading_basis=r["l"][0], loading_unit=r["l"][1],
                    material_basis=r["m"][0], material_unit=r["m"][1], temperature_unit="K" if tu == "K" else "°C")

    def make_template(self, cls, tu="K", matkind="registered", meta=None, bm="mix", mbr="ads", mcalc="loading", rep="default"):
        from pygaps import ModelIsotherm, PointIsotherm
        from pygaps.core.baseisotherm import BaseIsotherm
        import copy
        meta = copy.deepcopy(dict(meta or {}))
        temp = T_KELVIN if tu == "K" else T_KELVIN - 273.15
        common = dict(material=self.material_arg(matkind), adsorbate="nitrogen", temperature=temp)
        if matkind == "unregistered_bare" and rep != "default":
            rep = "default"        # conversions of the material basis need its density / molar mass
        if cls == "base":
            iso = BaseIsotherm(**common, **self.labels_kw(rep, tu), **meta)
        else:
            p, l, marks = example_data(with_des=(bm == "mix") or cls == "model")
            df = pandas.DataFrame({"pp": p, "ll": l, "branch": marks, "enth": [5.0 + 0.1 * i for i in range(len(p))], "note": [f"n{i}" for i in range(len(p))]})
            pt = PointIsotherm(isotherm_data=df, pressure_key="pp", loading_key="ll", **common, **self.labels_kw("default", tu), **(meta if cls == "point" else {}))
            r = REPS[rep]
            if rep != "default":
                pt.convert(pressure_mode=r["p"][0], pressure_unit=r["p"][1], loading_basis=r["l"][0], loading_unit=r["l"][1], material_basis=r["m"][0], material_unit=r["m"][1])
            if cls == "point":
                iso = pt
            else:
                pb, lb = pt.pressure(branch=mbr), pt.loading(branch=mbr)
                name = "Langmuir" if mcalc == "loading" else "WVST"
                try:
                    iso = ModelIsotherm(pressure=list(pb), loading=list(lb), model=name, branch=mbr, **common, **self.labels_kw(rep, tu), **meta)
                except Exception as e:
                    if exc_class(e) != "CalculationError" or rep == "default":
                        raise
                    # the optimiser gives up on these numbers (C10/C12's subject): take the representation where it does not
                    self.cleanup()
                    return self.make_template(cls, tu, matkind, meta, bm, mbr, mcalc, "default")
                self.witness[id(iso.model)] = (numpy.array(pb, dtype=float), numpy.array(lb, dtype=float))
                self.keep.append(pt)
        self.keep.append(iso)
        self.slots[1] = iso
        return iso

    # ------------------------------------------------------------ projection
    def cls_of(self, iso):
        from pygaps import ModelIsotherm, PointIsotherm
        return "model" if isinstance(iso, ModelIsotherm) else "point" if isinstance(iso, PointIsotherm) else "base"

    def lab_of(self, iso):
        u = iso.units
        return {"p": f"{u['pressure_mode']}|{u['pressure_unit']}", "l": f"{u['loading_basis']}|{u['loading_unit']}", "m": f"{u['material_basis']}|{u['material_unit']}"}

    def rmse_on(self, model, p, l):
        p, l = numpy.asarray(p, dtype=float), numpy.asarray(l, dtype=float)
        if model.calculates == "loading":
            res, span = model.loading(p) - l, model.loading_range[1] - model.loading_range[0]
        else:
            res, span = model.pressure(l) - p, model.pressure_range[1] - model.pressure_range[0]
        return float(numpy.sqrt(numpy.sum(res ** 2) / len(l)) / span)

    def src_token(self, model, p, l):
        """identity of 'fitted to exactly these numbers': the stored ranges and the stored rmse are those of (p, l)"""
        rng = self.ranges.tok(([model.pressure_range[0], model.pressure_range[1], model.loading_range[0], model.loading_range[1]],))
        try:
            with numpy.errstate(all="ignore"):
                re = self.rmse_on(model, p, l)
            stored = float(model.rmse)
            if not (math.isfinite(re) and math.isfinite(stored)):
                ok = (not math.isfinite(re)) and (not math.isfinite(stored))       # a one-point branch has no span: rmse is not a number on both sides
            else:
                ok = abs(re - stored) <= 1e-6 * abs(stored) + 1e-10
        except Exception:
            ok = False
        return f"{rng}|{'fit' if ok else 'misfit'}"

    def ref_src_token(self, p, l):
        return f"{self.ranges.tok(([float(numpy.min(p)), float(numpy.max(p)), float(numpy.min(l)), float(numpy.max(l))],))}|fit"

    def proj_obj(self, iso):
        if iso is None:
            return ABSENT_OBJ
        cls = self.cls_of(iso)
        tu = iso.temperature_unit
        o = dict(ABSENT_OBJ)
        o.update(cls=cls, lab=self.lab_of(iso), tu={"K": "K", "°C": "degC"}.get(tu, str(tu)), tv=f"{float(iso._temperature):.9g}", ads=str(iso.adsorbate),
                 mat=self.cells.id(iso.material), pref=self.prefs.id(iso.properties),
                 meta=[{"k": str(k), "v": vtok(v), "r": self.vrefs.id(v) if is_mutable(v) else 0} for k, v in iso.properties.items()])
        if cls == "point":
            df = iso.data_raw
            pk, lk = iso.pressure_key, iso.loading_key
            other = [c for c in df.columns if c not in (pk, lk, "branch")]
            ex = "-"
            if other:
                key = repr([(c, [vtok(v) for v in df[c].tolist()]) for c in other])
                ex = self.extras.setdefault(key, f"x{len(self.extras)}")
            o.update(pl=self.data.tok((df[pk].to_numpy(dtype=float), df[lk].to_numpy(dtype=float))), bm=marks_token(df["branch"].tolist()), ex=ex, keys=f"{pk}|{lk}",
                     dref=self.drefs.id(df))
        elif cls == "model":
            m = iso.model
            w = self.witness.get(id(m))
            o.update(mname=vtok(str(m.name)), mbr=str(iso.branch), mcalc=str(m.calculates), mpar=self.pars.tok(([float(v) for v in m.params.values()],)),
                     msrc=self.src_token(m, *w) if w is not None else "unknown")
        return o

    def proj_cell(self, m):
        reg = any(m is mm for mm in self.pg.MATERIAL_LIST)
        return {"name": str(m.name), "reg": bool(reg), "props": [{"k": str(k), "v": vtok(v)} for k, v in sorted(m.properties.items(), key=lambda kv: str(kv[0]))]}

    def project(self):
        objs = [self.proj_obj(self.slots[x]) for x in (1, 2, 3)]
        return {"obj": objs, "cells": [self.proj_cell(m) for m in self.cells.objs]}

    # ------------------------------------------------------------ steps
    def has_branch(self, iso, br):
        return bool((iso.data_raw["branch"].astype(int) == (0 if br == "ads" else 1)).any())

    def free_slot(self):
        for x in (1, 2, 3):
            if self.slots[x] is None:
                return x
        return None

    def convert_target(self, iso, kind, idx):
        bare = not (iso.material.properties.get("density") and iso.material.properties.get("molar_mass"))
        u = iso.units
        if kind == "P":
            cyc, cur = P_CYCLE, (u["pressure_mode"], u["pressure_unit"])
        elif kind == "L":
            cyc, cur = L_CYCLE, (u["loading_basis"], u["loading_unit"])
        elif kind == "M":
            cyc, cur = (M_CYCLE_BARE if bare else M_CYCLE), (u["material_basis"], u["material_unit"])
        else:
            return "°C" if u["temperature_unit"] == "K" else "K"
        cands = [c for c in cyc if c != cur]
        return cands[idx % len(cands)]

    def run(self, st):
        """Execute one abstract step on the real objects; returns the oracle record {pre, step, out, post}."""
        from pygaps import ModelIsotherm, PointIsotherm
        from pygaps.core.baseisotherm import BaseIsotherm
        k = st["k"]
        pre = self.project()
        js = {"k": k}
        out = "ok"
        new = None
        post_hook = None
        wit = None
        try:
            if k in ("PFI", "PFM", "MFP", "RT"):
                t = self.slots[st["t"]]
                js.update(t=st["t"], n=st["n"], gex="-", gkeys="pressure|loading", gbmguess=NIL)
                if self.slots[st["n"]] is not None:
                    raise MachineryError("derivation into an occupied slot")
            if k == "PFI":
                g = GIVEN[st.get("variant", 0) % len(GIVEN)]
                dm = st["dm"]
                js.update(dm=dm, gpl=self.data.tok((g["p"], g["l"])), gbmguess=marks_token(own_guess(g["p"])), gbmcol=NIL)
                if dm == "arrays":
                    call = lambda: PointIsotherm.from_isotherm(t, pressure=list(g["p"]), loading=list(g["l"]))
                else:
                    cols = {"a": list(g["p"]), "b": list(g["l"]), "e1": list(g["e"])}
                    if dm == "frame_with_marks":
                        cols["branch"] = list(g["marks"])
                        js["gbmcol"] = marks_token(g["marks"])
                    df = pandas.DataFrame(cols)
                    key = repr([("e1", [vtok(v) for v in g["e"]])])
                    js.update(gex=self.extras.setdefault(key, f"x{len(self.extras)}"), gkeys="a|b")
                    self.keep.append(df)
                    call = lambda: PointIsotherm.from_isotherm(t, isotherm_data=df, pressure_key="a", loading_key="b")
            elif k == "PFM":
                pts = st["pts"]
                js.update(pts=pts, s=st.get("s", 0))
                mdl = t.model
                lo_p, hi_p = mdl.pressure_range
                lo_l, hi_l = mdl.loading_range
                plist = [lo_p + f * (hi_p - lo_p) for f in (0.05, 0.2, 0.45, 0.7, 0.95)]
                llist = [lo_l + f * (hi_l - lo_l) for f in (0.1, 0.3, 0.5, 0.8)]
                s = self.slots.get(st.get("s", 0))
                kw = {}
                refp = refl = ownp = ownl = None
                try:
                    if pts == "none":
                        if mdl.calculates == "loading":
                            refp = t.pressure()
                            refl = t.loading_at(refp)
                        else:
                            refl = t.loading()
                            refp = t.pressure_at(refl)
                    elif pts == "plist":
                        kw = dict(pressure_points=list(plist))
                        refp, refl = numpy.array(plist), t.loading_at(plist)
                    elif pts == "llist":
                        kw = dict(loading_points=list(llist))
                        refl, refp = numpy.array(llist), t.pressure_at(llist)
                    elif pts == "both":
                        kw = dict(pressure_points=list(plist), loading_points=list(llist))
                    elif pts == "piso":
                        kw = dict(pressure_points=s)
                        # the pressures of the passed isotherm, as pressures: expressed in the model's representation
                        refp = s.pressure(branch=t.branch, pressure_mode=t.pressure_mode, pressure_unit=t.pressure_unit)
                        refl = t.loading_at(refp)
                        ownp = s.pressure(branch=t.branch)
                        ownl = t.loading_at(ownp)
                    elif pts == "liso":
                        kw = dict(loading_points=s)
                        refl = s.loading(branch=t.branch, loading_basis=t.loading_basis, loading_unit=t.loading_unit, material_basis=t.material_basis, material_unit=t.material_unit)
                        refp = t.pressure_at(refl)
                        ownl = s.loading(branch=t.branch)
                        ownp = t.pressure_at(ownl)
                except Exception as e:
                    # the model cannot be evaluated there (root finding of an inverse model, C10's subject): no reference, the route may only refuse
                    if pts in ("piso", "liso") and refp is not None and refl is not None:
                        ownp = ownl = None            # the reference exists; only the as-implemented variant (the other isotherm's raw numbers) cannot be evaluated
                        js["refown"] = "unavailable"
                    else:
                        refp = None
                        js["na"] = True
                        js["na_reason"] = f"{type(e).__name__}: {str(e)[:80]}"
                if refp is not None:
                    js["ref"] = self.data.tok((refp, refl))
                    if "refown" not in js:
                        js["refown"] = self.data.tok((ownp, ownl)) if ownp is not None else js["ref"]
                call = lambda: PointIsotherm.from_modelisotherm(t, **kw)
            elif k == "MFP":
                br, marg = st["br"], st["marg"]
                model = st.get("model") or ("Langmuir" if marg == "single" else ["Henry", "Langmuir"] if marg == "list" else "guess")
                if marg == "guess":
                    from pygaps.modelling import _GUESS_MODELS
                    names = list(_GUESS_MODELS)
                else:
                    names = [model] if isinstance(model, str) else list(model)
                js.update(br=br, marg="single" if marg == "single" else "list", names=[vtok(str(x)) for x in names])
                wit = None
                if br in ("ads", "des") and self.has_branch(t, br):
                    wit = (numpy.array(t.pressure(branch=br), dtype=float), numpy.array(t.loading(branch=br), dtype=float))
                    js["refsrc"] = self.ref_src_token(*wit)
                call = lambda: ModelIsotherm.from_pointisotherm(t, branch=None if br == NIL else br, model=model)

                def post_hook(iso):
                    if wit is not None:
                        self.witness[id(iso.model)] = wit
            elif k == "RT":
                cls = self.cls_of(t)
                if cls == "base":
                    call = lambda: BaseIsotherm(**t.to_dict())
                elif cls == "point":
                    call = lambda: PointIsotherm(isotherm_data=t.data_raw, pressure_key=t.pressure_key, loading_key=t.loading_key, **t.to_dict())
                else:
                    call = lambda: ModelIsotherm(model=t.model, **t.to_dict())
            elif k == "Convert":
                o = self.slots[st["o"]]
                kind = st["kind"]
                tgt = self.convert_target(o, kind, st.get("idx", 0))
                lab2 = self.lab_of(o)
                tu2, tv2 = pre["obj"][st["o"] - 1]["tu"], pre["obj"][st["o"] - 1]["tv"]
                if kind == "P":
                    lab2["p"] = f"{tgt[0]}|{tgt[1]}"
                    call = lambda: o.convert_pressure(mode_to=tgt[0], unit_to=tgt[1])
                elif kind == "L":
                    lab2["l"] = f"{tgt[0]}|{tgt[1]}"
                    call = lambda: o.convert_loading(basis_to=tgt[0], unit_to=tgt[1])
                elif kind == "M":
                    lab2["m"] = f"{tgt[0]}|{tgt[1]}"
                    call = lambda: o.convert_material(basis_to=tgt[0], unit_to=tgt[1])
                else:
                    tu2 = "K" if tgt == "K" else "degC"
                    tv2 = f"{(T_KELVIN if tgt == 'K' else T_KELVIN - 273.15):.9g}"
                    call = lambda: o.convert_temperature(tgt)
                js.update(o=st["o"], kind=kind, lab2=lab2, tu2=tu2, tv2=tv2, target=str(tgt))
            elif k == "SetMeta":
                o = self.slots[st["o"]]
                val = st["val"]
                if is_mutable(val):
                    val = type(val)(val)     # a new container object every time
                    self.keep.append(val)
                js.update(o=st["o"], key=st["key"], val=vtok(val), vr=self.vrefs.id(val) if is_mutable(val) else 0)
                call = lambda: o.properties.__setitem__(st["key"], val)
            elif k == "DelMeta":
                o = self.slots[st["o"]]
                js.update(o=st["o"], key=st["key"])
                call = lambda: o.properties.__delitem__(st["key"])
            elif k == "MutMeta":
                o = self.slots[st["o"]]
                v = o.properties[st["key"]]

                def call():
                    if isinstance(v, list):
                        v.append(len(v) + 100)
                    elif isinstance(v, dict):
                        v[f"k{len(v)}"] = len(v)
                    else:
                        raise MachineryError("MutMeta on an immutable value")
                    js["val"] = vtok(v)
                js.update(o=st["o"], key=st["key"])
            elif k == "EditMat":
                o = self.slots[st["o"]]
                js.update(o=st["o"], key=st["key"], val=vtok(st["val"]))
                call = lambda: o.material.properties.__setitem__(st["key"], st["val"])
            elif k == "Register":
                name = str(self.slots[st["o"]].material.name)
                props = {"density": 3.3 + 0.1 * self.nreg, "molar_mass": 99.5, "origin": "registered later"}
                self.nreg += 1
                js.update(name=name, props=[{"k": kk, "v": vtok(vv)} for kk, vv in sorted(props.items())])

                def call():
                    m = self.pg.Material(name, store=True, **props)
                    js["cell"] = self.cells.id(m)
            elif k == "Drop":
                js.update(o=st["o"])

                def call():
                    self.slots[st["o"]] = None
            else:
                raise MachineryError(f"unknown step {k}")
        except MachineryError:
            raise
        except Exception as e:     # preparing the call (reading the template through its accessors) failed: not a step
            raise MachineryError(f"could not prepare step {st}: {type(e).__name__}: {e}")
        try:
            res = call()
            if k in ("PFI", "PFM", "MFP", "RT"):
                new = res
        except MachineryError:
            raise
        except Exception as e:
            out = "raised:" + exc_class(e)
            js["message"] = str(e)[:160]
            if k == "MFP" and wit is not None and exc_class(e) not in ("TypeError", "ParameterError", "CalculationError"):
                # the optimiser / initial guess itself crashes on these numbers (model fitting is C10/C12's subject): not a statement about the derivation
                for nm in ([model] if isinstance(model, str) and model != "guess" else names):
                    try:
                        ModelIsotherm(pressure=list(wit[0]), loading=list(wit[1]), model=nm, branch=br, material="x04_probe", adsorbate=str(t.adsorbate), temperature=t._temperature, **t.units)
                    except Exception as e2:
                        if exc_class(e2) == exc_class(e):
                            js["skip"] = f"fitting {nm} directly to the same numbers raises {exc_class(e2)}: {str(e2)[:80]}"
                            break
            if k == "MFP" and out == "raised:CalculationError" and wit is not None:
                # may only be refused like this if the very same fit, asked for directly, fails as well
                try:
                    u = t.units
                    for nm in ([model] if isinstance(model, str) and model != "guess" else names if model == "guess" else list(model)):
                        try:
                            ModelIsotherm(pressure=list(wit[0]), loading=list(wit[1]), model=nm, branch=br, material="x04_probe", adsorbate=str(t.adsorbate), temperature=t._temperature, **u)
                            break
                        except Exception as e2:
                            if exc_class(e2) != "CalculationError":
                                break
                    else:
                        js["na"] = True
                        js["na_reason"] = "the direct fit of the same numbers fails as well"
                except Exception:
                    pass
        if new is not None:
            self.keep.append(new)
            self.slots[st["n"]] = new
            if post_hook:
                post_hook(new)
            if k == "RT" and self.cls_of(new) == "model":
                pass                     # same model object: same witness
            if k == "MFP":
                js.update(obsname=vtok(str(new.model.name)), obscalc=str(new.model.calculates), obspar=self.pars.tok(([float(v) for v in new.model.params.values()],)))
        post = self.project()
        if k == "Convert":
            po = post["obj"][st["o"] - 1]
            js["pl2"] = po["pl"] if st["kind"] != "T" else pre["obj"][st["o"] - 1]["pl"]
        # the same cell domain on both sides
        while len(pre["cells"]) < len(post["cells"]):
            pre["cells"].append(ABSENT_CELL)
        js.pop("message", None) if out == "ok" else None
        return {"pre": pre, "step": js, "out": out, "post": post}
