"""C05 helper: materialise a scenario of spec/Identity.tla on the real pyGAPS classes, observe its
identifier before and after read-only calls.  Used in-process by harness/drivers/c05.py and as a
worker in other interpreter processes (other PYTHONHASHSEED):  python -m harness.c05_build <in> <out>
"""
import copy
import json
import random
import sys
from decimal import Decimal


class RouteNotRealisable(Exception):
    """The export step of a 'parse of an export' route failed: no second object exists (C06's concern)."""


def fx(v):
    """<<q, r>> = q*1e-8 + r*1e-10 -> nearest float."""
    return float(Decimal(int(v[0])).scaleb(-8) + Decimal(int(v[1])).scaleb(-10))


def sparse(x):
    """JsonSerialize writes an empty function as []"""
    return {} if isinstance(x, list) and not x else x


def tok(t, perm=False, npm=False):
    """Render a metadata token of the spec; npm: as numpy scalars of every kind (as they come out of arrays / tables)."""
    kind, _, body = t.partition(":")
    if npm:
        import numpy
        if kind == "str":
            return numpy.array([body])[0]                      # numpy.str_
        if kind == "int":
            return numpy.array([int(body)], dtype="int32" if perm else "int64")[0]
        if kind == "float":
            v = float(body)
            return numpy.float32(v) if float(numpy.float32(v)) == v and not perm else numpy.float64(v)
        if kind == "bool":
            return numpy.array([body == "T"])[0]                # numpy.bool_
        if kind == "list":
            arr = numpy.array(body.split(","))
            return arr if perm else tuple(arr)                 # an array of str_, or a tuple of numpy.str_
        if kind == "dict":
            items = [kv.split("=") for kv in body.split(",")]
            if perm:
                items = items[::-1]
            return {k: numpy.int64(v) for k, v in items}
        raise ValueError(t)
    if kind == "str":
        return body
    if kind == "int":
        return int(body)
    if kind == "float":
        return float(body)
    if kind == "bool":
        return body == "T"
    if kind == "list":
        return body.split(",")
    if kind == "dict":
        items = [kv.split("=") for kv in body.split(",")]
        if perm:
            items = items[::-1]
        return {k: int(v) for k, v in items}
    raise ValueError(t)


DEFAULT_LABELS = {}      # filled from the spec (Labels0) by the driver / the worker job
_SUB = {}


def klass(kind, r):
    """The class to instantiate: the pyGAPS class or a trivial user subclass of it."""
    from pygaps.core.baseisotherm import BaseIsotherm
    from pygaps.core.pointisotherm import PointIsotherm
    from pygaps.core.modelisotherm import ModelIsotherm
    base = {"base": BaseIsotherm, "point": PointIsotherm, "model": ModelIsotherm}[kind]
    if not r.get("sub"):
        return base
    if kind not in _SUB:
        _SUB[kind] = type("My" + base.__name__, (base,), {"__doc__": "a user subclass that adds nothing"})
    return _SUB[kind]


def earlier_isotherm_with_other_units():
    """History for the 'dflt' routes: the session has just built an isotherm whose unit labels are all non-default."""
    from pygaps.core.baseisotherm import BaseIsotherm
    BaseIsotherm(material="earlier", adsorbate="nitrogen", temperature=30, pressure_mode="relative%", pressure_unit=None,
                 loading_basis="mass", loading_unit="mg", material_basis="volume", material_unit="L", temperature_unit="°C")


ADS = {"nitrogen": {"name": "nitrogen", "alias": "N2", "upper": "NITROGEN"},
       "argon": {"name": "argon", "alias": "Ar", "upper": "ARGON"}}


def common_kwargs(c, r):
    perm = r["perm"]
    lab = dict(c["labels"])
    kw = []
    for k in ("pressure_mode", "pressure_unit", "loading_basis", "loading_unit", "material_basis", "material_unit", "temperature_unit"):
        v = lab[k]
        if r.get("dflt"):
            if not DEFAULT_LABELS:
                raise RuntimeError("DEFAULT_LABELS not set")
            if v == DEFAULT_LABELS[k]:
                continue                      # rely on the documented default
        if v == "none":
            v = "bar" if perm else None       # a pressure unit given for a relative mode is dropped by the constructor
        if v == "degC":
            v = "°C"
        kw.append((k, v))
    mprops = sparse(c["material"]["props"])
    if mprops:
        items = [("name", c["material"]["name"])] + [(k, tok(v, perm, r.get("npm", False))) for k, v in mprops.items()]
        material = dict(items[::-1] if perm else items)
    else:
        material = c["material"]["name"]
    kw.append(("material", material))
    kw.append(("adsorbate", ADS[c["adsorbate"]][r["alias"]]))
    t = c["temp"] / 1e6
    kw.append(("temperature", str(t) if perm else t))      # the constructor documents float or str
    kw.extend((k, tok(v, perm, r.get("npm", False))) for k, v in sparse(c["meta"]).items())
    if perm:
        kw = kw[::-1]
    return dict(kw)


def build_point(c, r, mut=None):
    import numpy
    import pandas
    BaseIsotherm = klass("base", {})
    PointIsotherm = klass("point", r)
    rows = c["rows"]
    as_int = r["lit"] == "int"
    guess = r["br"] == "guess"

    def num(v):
        f = fx(v)
        if as_int:
            if f != int(f):
                raise ValueError("integer literal route on non-integral content")
            return int(f)
        return f

    p = [num(x["p"]) for x in rows]
    lo = [num(x["l"]) for x in rows]
    enth = [fx(x["enth"]) for x in rows]
    if mut and mut["kind"] == "zero written as -0.0":
        target = {"p": p, "l": lo, "enth": enth}[mut["a"]]
        if target[mut["i"] - 1] != 0:
            raise ValueError("-0.0 rendering asked for a non-zero cell")
        target[mut["i"] - 1] = -0.0
    marks = [bool(x["b"]) for x in rows] if r["br"] in ("bools", "column_bool") else [int(x["b"]) for x in rows]
    kw = common_kwargs(c, r)
    cont = r["cont"]
    if cont in ("list", "tuple", "ndarray"):
        if cont == "tuple":
            p, lo, marks = tuple(p), tuple(lo), tuple(marks)
        elif cont == "ndarray":
            p, lo, marks = numpy.array(p), numpy.array(lo), numpy.array(marks)
        if r["via"] == "from_isotherm":
            if not guess:
                raise ValueError("from_isotherm route needs a branch column or guessed marks")
            return PointIsotherm.from_isotherm(BaseIsotherm(**kw), pressure=p, loading=lo)
        if guess:
            return PointIsotherm(pressure=p, loading=lo, **kw)
        return PointIsotherm(pressure=p, loading=lo, branch=marks, **kw)
    cols = [("pressure", p), ("loading", lo)]
    if c["extras"]:
        cols += [("enth", enth), ("note", [x["note"] for x in rows])]
    if r["br"] in ("column", "column_bool"):
        cols.append(("branch", marks))
    if r["perm"]:
        cols = cols[::-1]
    n = len(rows)
    index = {"df_default": None, "df_shift": list(range(5, 5 + n)), "df_str": [f"r{i}" for i in range(n)],
             "df_reversed_labels": list(range(n - 1, -1, -1))}[cont]
    df = pandas.DataFrame(dict(cols), index=index)
    extra = {} if r["br"] in ("column", "column_bool") or guess else {"branch": marks}
    if r["via"] == "from_isotherm":
        base = BaseIsotherm(**kw)
        return PointIsotherm.from_isotherm(base, isotherm_data=df, pressure_key="pressure", loading_key="loading")
    return PointIsotherm(isotherm_data=df, pressure_key="pressure", loading_key="loading", **extra, **kw)


def build_model(c, r):
    import numpy
    ModelIsotherm = klass("model", r)
    from pygaps.modelling import get_isotherm_model, model_from_dict
    m = c["model"]
    lit = r["lit"]
    fl = numpy.float64 if lit == "npfloat" else float

    def rng(pair):
        vals = [fx(v) for v in pair]
        if lit in ("int", "npint"):
            if any(v != int(v) for v in vals):
                raise ValueError("integer route on non-integral ranges")
            vals = [numpy.int64(v) if lit == "npint" else int(v) for v in vals]
        else:
            vals = [fl(v) for v in vals]
        return list(vals) if lit == "lists" else tuple(vals)

    params = [(k, fl(fx(v))) for k, v in m["params"].items()]
    if r["perm"]:
        params = params[::-1]
    d = {"parameters": dict(params), "pressure_range": rng(m["prange"]), "loading_range": rng(m["lrange"]), "rmse": fl(fx(m["rmse"]))}
    if r["cont"] == "from_dict":
        model = model_from_dict({"name": m["name"], **d})
    else:
        model = get_isotherm_model(m["name"], **d)
    return ModelIsotherm(model=model, branch=m["branch"], **common_kwargs(c, r))


def materialise(entry):
    """entry: one row of the scenario table (content + route) -> the real isotherm object."""
    import pygaps.parsing as pgp
    c, r = entry["content"], entry["route"]
    BaseIsotherm = klass("base", r)
    if r.get("dflt"):
        earlier_isotherm_with_other_units()
    if c["cls"] == "point":
        iso = build_point(c, r, entry.get("mut"))
    elif c["cls"] == "model":
        iso = build_model(c, r)
    else:
        iso = BaseIsotherm(**common_kwargs(c, r))
    via = r["via"]
    if via == "json":
        try:
            text = iso.to_json()
        except Exception as e:
            raise RouteNotRealisable(f"to_json: {type(e).__name__}: {e}") from e
        iso = pgp.isotherm_from_json(text)
    elif via == "copy":
        try:
            iso = copy.deepcopy(iso)
        except Exception as e:
            # deepcopy fails once the shared Adsorbate holds a live CoolProp state; copying is not a route the property names
            raise RouteNotRealisable(f"deepcopy: {type(e).__name__}: {e}") from e
    elif via == "dict":
        iso = BaseIsotherm(**iso.to_dict())
    return iso


def read_alphabet(iso, c):
    cls = c["cls"]
    if cls == "base":
        return [("to_dict", iso.to_dict), ("to_json", iso.to_json), ("str", lambda: str(iso)), ("repr", lambda: repr(iso)),
                ("units", lambda: iso.units), ("eq", lambda: iso == iso), ("in_list", lambda: iso in [iso])]
    if cls == "model":
        m = c["model"]
        pm = (fx(m["prange"][0]) + fx(m["prange"][1])) / 2
        lm = (fx(m["lrange"][0]) + fx(m["lrange"][1])) / 2
        return [("pressure", iso.pressure), ("loading", iso.loading), ("loading_at", lambda: iso.loading_at(pm)),
                ("pressure_at", lambda: iso.pressure_at(lm)), ("spreading_pressure_at", lambda: iso.spreading_pressure_at(pm)),
                ("to_dict", iso.to_dict), ("to_json", iso.to_json), ("str", lambda: str(iso)), ("model.to_dict", iso.model.to_dict),
                ("eq", lambda: iso == iso)]
    ps = [fx(x["p"]) for x in c["rows"]]
    ls = [fx(x["l"]) for x in c["rows"]]
    pm = (min(ps) + max(ps)) / 2
    lm = (min(ls) + max(ls)) / 2
    return [("pressure", iso.pressure), ("loading", iso.loading), ("pressure(ads)", lambda: iso.pressure(branch="ads")),
            ("loading(des)", lambda: iso.loading(branch="des")), ("loading_at", lambda: iso.loading_at(pm)),
            ("loading_at(des)", lambda: iso.loading_at(pm, branch="des")), ("pressure_at", lambda: iso.pressure_at(lm)),
            ("spreading_pressure_at", lambda: iso.spreading_pressure_at([pm])), ("data", iso.data), ("has_branch", lambda: iso.has_branch("des")),
            ("to_dict", iso.to_dict), ("to_json", iso.to_json), ("to_csv", iso.to_csv), ("str", lambda: str(iso)), ("repr", lambda: repr(iso)),
            ("pressure(kPa)", lambda: iso.pressure(pressure_unit="kPa", pressure_mode="absolute")),
            ("pressure(relative)", lambda: iso.pressure(pressure_mode="relative")),
            ("loading(mol)", lambda: iso.loading(loading_unit="mol", loading_basis="molar")),
            ("loading(limits)", lambda: iso.loading(limits=(lm / 2, lm * 1.5))),
            ("loading_at(interp)", lambda: iso.loading_at(pm, interpolation_type="slinear", interp_fill=0)),
            ("eq", lambda: iso == iso), ("in_list", lambda: iso in [iso])]


def consumer_alphabet(iso, c):
    """Idioms that CONSUME what the isotherm hands out (to_dict, model.to_dict, data, exports, copies): read-only for the
    isotherm.  Each returns the rebuilt isotherm when the idiom rebuilds the same content (its id is compared), else None."""
    import os
    import tempfile
    from pygaps.core.baseisotherm import BaseIsotherm
    from pygaps.core.pointisotherm import PointIsotherm
    from pygaps.core.modelisotherm import ModelIsotherm
    from pygaps.modelling import model_from_dict
    cls = c["cls"]

    def to_xl():
        fd, path = tempfile.mkstemp(suffix=".xls")
        os.close(fd)
        try:
            iso.to_xl(path)
        finally:
            if os.path.exists(path):
                os.unlink(path)

    def nothing(fn):
        def run():
            fn()
            return None
        return run

    out = [("to_json", nothing(iso.to_json)), ("to_csv", nothing(iso.to_csv)), ("to_aif", nothing(iso.to_aif)), ("to_xl", nothing(to_xl)),
           ("deepcopy", lambda: copy.deepcopy(iso)),
           ("dict(to_dict)", nothing(lambda: dict(iso.to_dict()).clear()))]
    if cls == "base":
        out += [("BaseIsotherm(**to_dict)", lambda: BaseIsotherm(**iso.to_dict())),
                ("type(iso)(**to_dict)", lambda: type(iso)(**iso.to_dict()))]
    elif cls == "model":
        out += [("model_from_dict(model.to_dict)", nothing(lambda: model_from_dict(iso.model.to_dict()))),
                ("ModelIsotherm(model=model_from_dict(model.to_dict), **to_dict)",
                 lambda: ModelIsotherm(model=model_from_dict(iso.model.to_dict()), **iso.to_dict())),
                ("model_from_dict(dict(model.to_dict))", nothing(lambda: model_from_dict(dict(iso.model.to_dict())))),
                ("PointIsotherm.from_modelisotherm", nothing(lambda: PointIsotherm.from_modelisotherm(iso))),
                ("pop from model.to_dict", nothing(lambda: iso.model.to_dict().pop("name")))]
    else:
        out += [("PointIsotherm(**to_dict, isotherm_data=data_raw)",
                 lambda: PointIsotherm(isotherm_data=iso.data_raw, pressure_key=iso.pressure_key, loading_key=iso.loading_key, **iso.to_dict())),
                ("PointIsotherm(**to_dict, isotherm_data=data())",
                 lambda: PointIsotherm(isotherm_data=iso.data(), pressure_key=iso.pressure_key, loading_key=iso.loading_key, **iso.to_dict())),
                ("from_isotherm(iso, isotherm_data=data_raw)",
                 lambda: type(iso).from_isotherm(iso, isotherm_data=iso.data_raw, pressure_key=iso.pressure_key, loading_key=iso.loading_key)),
                ("ModelIsotherm.from_pointisotherm", nothing(lambda: ModelIsotherm.from_pointisotherm(iso, model="Henry")))]
    return out


def safe_id(iso):
    try:
        v = iso.iso_id
    except Exception as e:
        return False, f"!iso_id:{type(e).__name__}"
    if not isinstance(v, str) or not v:
        return False, "!iso_id:not a string"
    return True, v


def build_and_id(entry):
    """-> (object or None, dict(ok, id, after, reads, error) or dict(skip))"""
    try:
        iso = materialise(entry)
    except RouteNotRealisable as e:
        return None, {"skip": str(e)[:200]}
    except Exception as e:
        return None, {"ok": False, "id": f"!construct:{type(e).__name__}", "after": "", "reads": [], "error": str(e)[:300]}
    ok, ident = safe_id(iso)
    return iso, {"ok": ok, "id": ident, "after": ident, "reads": [], "error": ""}


def do_reads(iso, entry, out, rng, nreads, everything=False):
    """A seeded sequence of read-only calls on the live object (accessors, then consumers of what it hands out),
    then the identifier again.  everything=True: the whole alphabet."""
    out.setdefault("clones", [])
    if iso is None or not out.get("ok"):
        return out
    alpha = read_alphabet(iso, entry["content"])
    cons = consumer_alphabet(iso, entry["content"])
    if everything:
        plan = alpha + cons
    elif nreads:
        plan = rng.sample(alpha, min(max(nreads - 1, 1), len(alpha))) + rng.sample(cons, 2 if nreads > 3 else 1)
    else:
        plan = []
    for name, fn in plan:
        try:
            res = fn()
            out["reads"].append(name)
        except Exception as e:
            out["reads"].append(f"{name}!{type(e).__name__}")
            continue
        if res is not None and hasattr(res, "iso_id") and (name, fn) in cons:
            out["clones"].append(safe_id(res)[1])
    out["after"] = safe_id(iso)[1]
    return out


def observe(entry, rng, nreads):
    iso, out = build_and_id(entry)
    return do_reads(iso, entry, out, rng, nreads)


# ------------------------------------------------------------------ edit after read (in place)
class EditNotRealisable(Exception):
    """This way of editing cannot express the mutation on this object (e.g. a float into an int column)."""


UNDOABLE = {"zero written as -0.0", "meta value", "meta value as text", "label", "adsorbate", "temperature", "datum", "text cell", "branch mark",
            "model parameter", "model range", "model rmse", "model branch"}
EDIT_WAYS = {"datum": 4, "zero written as -0.0": 4, "text cell": 4, "branch mark": 4, "meta key added": 2, "material name": 2, "material property": 2,
             "row removed": 2, "column added": 2, "model range": 2}


def _label(v):
    return None if v == "none" else ("°C" if v == "degC" else v)


def _set_cell(iso, col, pos, value, way):
    import pandas
    df = iso.data_raw
    if df[col].dtype == bool:
        value = bool(value)
    elif pandas.api.types.is_integer_dtype(df[col].dtype) and isinstance(value, float) and value != int(value):
        raise EditNotRealisable("float into an integer column")
    elif pandas.api.types.is_integer_dtype(df[col].dtype) and isinstance(value, float):
        value = int(value)
    lab = df.index[pos]
    if way == 0:
        df.loc[lab, col] = value
    elif way == 1:
        df.iloc[pos, df.columns.get_loc(col)] = value
    elif way == 2:
        df.at[lab, col] = value
    else:
        vals = df[col].tolist()
        vals[pos] = value
        iso.data_raw[col] = vals          # whole-column assignment on the same frame


def edit_in_place(iso, mut, target, way):
    """Change the live object so that its content becomes `target` (a content record of the spec),
    for the spec mutation `mut`, through the `way`-th route a user has for that kind of edit."""
    kind, a, i = mut["kind"], mut["a"], mut["i"]
    if kind in ("meta value", "meta value as text"):
        iso.properties[a] = tok(sparse(target["meta"])[a])
    elif kind == "meta key removed":
        del iso.properties[a]
    elif kind == "meta key added":
        v = tok(sparse(target["meta"])[a])
        if way == 0:
            iso.properties[a] = v
        else:
            setattr(iso, a, v)
    elif kind == "label":
        for k, v in target["labels"].items():
            if getattr(iso, k) != _label(v):
                setattr(iso, k, _label(v))
    elif kind in ("material name", "material property"):
        props = {k: tok(v) for k, v in sparse(target["material"]["props"]).items()}
        if way == 0:
            if kind == "material name":
                iso.material.name = target["material"]["name"]
            else:
                iso.material.properties.update(props)
        else:
            iso.material = {"name": target["material"]["name"], **props} if props else target["material"]["name"]
    elif kind == "adsorbate":
        iso.adsorbate = target["adsorbate"]
    elif kind == "temperature":
        iso.temperature = target["temp"] / 1e6
    elif kind in ("datum", "text cell", "branch mark", "zero written as -0.0"):
        row = target["rows"][i - 1]
        if kind == "zero written as -0.0":
            col = {"p": iso.pressure_key, "l": iso.loading_key, "enth": "enth"}[a]
            val = -0.0 if mut.get("_apply", True) else 0.0
        elif kind == "branch mark":
            col, val = "branch", int(row["b"])
        elif kind == "text cell":
            col, val = "note", row["note"]
        else:
            col = {"p": iso.pressure_key, "l": iso.loading_key, "enth": "enth"}[a]
            val = fx(row[a])
        _set_cell(iso, col, i - 1, val, way)
    elif kind == "row removed":
        if way == 0:
            iso.data_raw.drop(index=iso.data_raw.index[i - 1], inplace=True)
        else:
            keep = [k for k in range(len(iso.data_raw)) if k != i - 1]
            iso.data_raw = iso.data_raw.iloc[keep]
    elif kind == "column added":
        enth = [fx(r["enth"]) for r in target["rows"]]
        note = [r["note"] for r in target["rows"]]
        if way == 0:
            iso.data_raw["enth"] = enth
            iso.data_raw["note"] = note
        else:
            iso.data_raw.insert(len(iso.data_raw.columns), "enth", enth)
            iso.data_raw.insert(len(iso.data_raw.columns), "note", note)
    elif kind == "model parameter":
        iso.model.params[a] = fx(target["model"]["params"][a])
    elif kind == "model range":
        new = tuple(fx(v) for v in target["model"][a])
        attr = "pressure_range" if a == "prange" else "loading_range"
        if way == 0 or not isinstance(getattr(iso.model, attr), list):
            setattr(iso.model, attr, new)
        else:
            getattr(iso.model, attr)[i - 1] = new[i - 1]
    elif kind == "model rmse":
        iso.model.rmse = fx(target["model"]["rmse"])
    elif kind == "model branch":
        iso.branch = target["model"]["branch"]
    else:
        raise EditNotRealisable(kind)


def read_id(iso, reader, other):
    """Take the identifier the way a user meets it."""
    if reader == "eq":
        iso == other          # noqa: B015  (compares identifiers)
    elif reader == "repr":
        repr(iso)
    elif reader == "in_list":
        iso in [other]        # noqa: B015
    return iso.iso_id


def edit_history(base_entry, mut_entry, way, reader, fresh_base, fresh_mut):
    """build(base content, route) ; read id ; edit in place ; read id ; undo in place ; read id."""
    iso = materialise(base_entry)
    before = read_id(iso, reader, fresh_base)
    mut = mut_entry["mut"]
    try:
        edit_in_place(iso, mut, mut_entry["content"], way)
    except EditNotRealisable as e:
        return {"skip": str(e)}
    except (TypeError, ValueError) as e:
        # pandas refuses lossy assignments (e.g. a float into an int64 column built from integer literals)
        return {"skip": f"{type(e).__name__}: {str(e)[:80]}"}
    out = {"before": before, "after": read_id(iso, reader, fresh_mut), "eq_fresh": bool(iso == fresh_mut),
           "eq_old": bool(iso == fresh_base), "undo": ""}
    if mut["kind"] in UNDOABLE:
        try:
            edit_in_place(iso, {**mut, "_apply": False}, base_entry["content"], way)
            out["undo"] = iso.iso_id
        except (EditNotRealisable, TypeError, ValueError):
            out["undo"] = ""
    return out


def worker(path_in, path_out):
    """Other-process route: same scenarios, ids only."""
    from harness.common import quiet_pygaps
    quiet_pygaps()
    with open(path_in) as f:
        job = json.load(f)
    rng = random.Random(job["seed"])
    DEFAULT_LABELS.update(job["defaults"])
    res = []
    for e in job["entries"]:
        o = observe(e, rng, 0)
        res.append(o.get("id", "!skip") if not o.get("skip") else "!skip")
    with open(path_out, "w") as f:
        json.dump({"hashseed": __import__("os").environ.get("PYTHONHASHSEED"), "ids": res}, f)


if __name__ == "__main__":
    worker(sys.argv[1], sys.argv[2])
